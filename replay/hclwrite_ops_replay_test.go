package hclwrite

// Dynamic oracle for unit U7 (writer AST). Injected with `go test -overlay`;
// never part of the repository. It re-expresses the representation invariants
// of the contracts in Go (list well-formedness, cached handles attached,
// item set within the child list) plus the accessor-vs-model agreement of C12,
// and searches every sequence of at most N writer operations from a small
// operation alphabet for a failing history.

import (
	"fmt"
	"os"
	"sort"
	"strings"
	"testing"

	"github.com/hashicorp/hcl/v2"
	"github.com/hashicorp/hcl/v2/hclsyntax"
	"github.com/zclconf/go-cty/cty"
)

func verifListNodes(ns *nodes) ([]*node, string) {
	var out []*node
	seen := map[*node]bool{}
	var prev *node
	for n := ns.first; n != nil; n = n.after {
		if seen[n] {
			return nil, "cycle in child list"
		}
		seen[n] = true
		if n.list != ns {
			return nil, "linked node does not point at its list"
		}
		if n.before != prev {
			return nil, "before link inconsistent"
		}
		prev = n
		out = append(out, n)
	}
	if ns.last != prev {
		return nil, "last pointer does not match the end of the list"
	}
	return out, ""
}

func verifIn(nodes []*node, h *node) bool {
	for _, n := range nodes {
		if n == h {
			return true
		}
	}
	return false
}

func verifCheckBody(b *Body, path string) string {
	ls, msg := verifListNodes(b.children)
	if msg != "" {
		return path + ": " + msg
	}
	for n := range b.items {
		if !verifIn(ls, n) {
			return path + ": item set contains a node that is not linked into the body"
		}
	}
	for _, n := range ls {
		switch c := n.content.(type) {
		case *Attribute:
			if !b.items.Has(n) {
				return path + ": attribute node missing from the item set"
			}
			cs, msg := verifListNodes(c.children)
			if msg != "" {
				return path + ".attr: " + msg
			}
			for nm, h := range map[string]*node{"leadComments": c.leadComments, "name": c.name, "expr": c.expr, "lineComments": c.lineComments} {
				if h == nil || !verifIn(cs, h) {
					return path + ".attr: cached handle " + nm + " is not attached to the attribute's child list"
				}
			}
			if _, ok := c.name.content.(*identifier); !ok {
				return path + ".attr: name handle does not hold an identifier"
			}
			if _, ok := c.expr.content.(*Expression); !ok {
				return path + ".attr: expr handle does not hold an expression"
			}
		case *Block:
			if !b.items.Has(n) {
				return path + ": block node missing from the item set"
			}
			cs, msg := verifListNodes(c.children)
			if msg != "" {
				return path + ".block: " + msg
			}
			for nm, h := range map[string]*node{"leadComments": c.leadComments, "typeName": c.typeName, "labels": c.labels, "open": c.open, "body": c.body, "close": c.close} {
				if h == nil || !verifIn(cs, h) {
					return path + ".block: cached handle " + nm + " is not attached to the block's child list"
				}
			}
			if msg := verifCheckBody(c.Body(), path+"."+c.Type()); msg != "" {
				return msg
			}
		}
	}
	return ""
}

// model of a body: attribute name -> value text, ordered blocks
type verifModelBlock struct {
	typ    string
	labels []string
	body   *verifModel
}
type verifModel struct {
	attrs  map[string]string
	blocks []*verifModelBlock
}

func verifNewModel() *verifModel { return &verifModel{attrs: map[string]string{}} }

func verifCompare(b *Body, m *verifModel, path string) string {
	got := b.Attributes()
	var gk, mk []string
	for k := range got {
		gk = append(gk, k)
	}
	for k := range m.attrs {
		mk = append(mk, k)
	}
	sort.Strings(gk)
	sort.Strings(mk)
	if strings.Join(gk, ",") != strings.Join(mk, ",") {
		return fmt.Sprintf("%s: Attributes() reports [%s], the edits imply [%s]", path, strings.Join(gk, ","), strings.Join(mk, ","))
	}
	for k, a := range got {
		if v := strings.TrimSpace(string(a.Expr().BuildTokens(nil).Bytes())); v != m.attrs[k] {
			return fmt.Sprintf("%s: attribute %s reads back as %q, the edits imply %q", path, k, v, m.attrs[k])
		}
	}
	bl := b.Blocks()
	if len(bl) != len(m.blocks) {
		return fmt.Sprintf("%s: Blocks() reports %d blocks, the edits imply %d", path, len(bl), len(m.blocks))
	}
	for i, blk := range bl {
		mb := m.blocks[i]
		if blk.Type() != mb.typ {
			return fmt.Sprintf("%s: block %d Type() is %q, the edits imply %q", path, i, blk.Type(), mb.typ)
		}
		if strings.Join(blk.Labels(), "|") != strings.Join(mb.labels, "|") {
			return fmt.Sprintf("%s: block %d Labels() is %q, the edits imply %q", path, i, blk.Labels(), mb.labels)
		}
		if msg := verifCompare(blk.Body(), mb.body, path+"."+mb.typ); msg != "" {
			return msg
		}
	}
	return ""
}

func verifCompareParsed(nb *hclsyntax.Body, m *verifModel, path string) string {
	if len(nb.Attributes) != len(m.attrs) {
		return fmt.Sprintf("%s: serialised file has %d attributes, the edits imply %d", path, len(nb.Attributes), len(m.attrs))
	}
	for k := range m.attrs {
		if _, ok := nb.Attributes[k]; !ok {
			return fmt.Sprintf("%s: serialised file lacks attribute %s", path, k)
		}
	}
	if len(nb.Blocks) != len(m.blocks) {
		return fmt.Sprintf("%s: serialised file has %d blocks, the edits imply %d", path, len(nb.Blocks), len(m.blocks))
	}
	for i, blk := range nb.Blocks {
		mb := m.blocks[i]
		if blk.Type != mb.typ || strings.Join(blk.Labels, "|") != strings.Join(mb.labels, "|") {
			return fmt.Sprintf("%s: serialised block %d is %s %q, the edits imply %s %q", path, i, blk.Type, blk.Labels, mb.typ, mb.labels)
		}
		if msg := verifCompareParsed(blk.Body, mb.body, path+"."+mb.typ); msg != "" {
			return msg
		}
	}
	return ""
}

type verifOp struct {
	name string
	run  func(b *Body, m *verifModel)
}

func verifOps() []verifOp {
	first := func(b *Body) (*Block, int) {
		bl := b.Blocks()
		if len(bl) == 0 {
			return nil, -1
		}
		return bl[0], 0
	}
	return []verifOp{
		{"SetAttributeValue(a,1)", func(b *Body, m *verifModel) { b.SetAttributeValue("a", cty.NumberIntVal(1)); m.attrs["a"] = "1" }},
		{"SetAttributeValue(a,2)", func(b *Body, m *verifModel) { b.SetAttributeValue("a", cty.NumberIntVal(2)); m.attrs["a"] = "2" }},
		{"SetAttributeTraversal(b,x.y)", func(b *Body, m *verifModel) {
			b.SetAttributeTraversal("b", hcl.Traversal{hcl.TraverseRoot{Name: "x"}, hcl.TraverseAttr{Name: "y"}})
			m.attrs["b"] = "x.y"
		}},
		{"SetAttributeRaw(a,true)", func(b *Body, m *verifModel) {
			b.SetAttributeRaw("a", Tokens{{Type: hclsyntax.TokenIdent, Bytes: []byte("true")}})
			m.attrs["a"] = "true"
		}},
		{"RemoveAttribute(a)", func(b *Body, m *verifModel) { b.RemoveAttribute("a"); delete(m.attrs, "a") }},
		{"RenameAttribute(a,c)", func(b *Body, m *verifModel) {
			ok := b.RenameAttribute("a", "c")
			_, hasA := m.attrs["a"]
			_, hasC := m.attrs["c"]
			if hasA && !hasC {
				m.attrs["c"] = m.attrs["a"]
				delete(m.attrs, "a")
				if !ok {
					panic("RenameAttribute reported failure for a legal rename")
				}
			} else if ok {
				panic("RenameAttribute reported success for an impossible rename")
			}
		}},
		{"AppendNewBlock(blk,[l])", func(b *Body, m *verifModel) {
			b.AppendNewBlock("blk", []string{"l"})
			m.blocks = append(m.blocks, &verifModelBlock{"blk", []string{"l"}, verifNewModel()})
		}},
		{"RemoveBlock(first)", func(b *Body, m *verifModel) {
			if blk, i := first(b); blk != nil {
				b.RemoveBlock(blk)
				m.blocks = append(m.blocks[:i:i], m.blocks[i+1:]...)
			}
		}},
		{"first.SetType(t2)", func(b *Body, m *verifModel) {
			if blk, i := first(b); blk != nil {
				blk.SetType("t2")
				m.blocks[i].typ = "t2"
			}
		}},
		{"first.SetLabels([x,y])", func(b *Body, m *verifModel) {
			if blk, i := first(b); blk != nil {
				blk.SetLabels([]string{"x", "y"})
				m.blocks[i].labels = []string{"x", "y"}
			}
		}},
		{"first.Body.SetAttributeValue(n,3)", func(b *Body, m *verifModel) {
			if blk, i := first(b); blk != nil {
				blk.Body().SetAttributeValue("n", cty.NumberIntVal(3))
				m.blocks[i].body.attrs["n"] = "3"
			}
		}},
		{"Clear", func(b *Body, m *verifModel) { b.Clear(); m.attrs = map[string]string{}; m.blocks = nil }},
	}
}

func verifRunHistory(seq []int, ops []verifOp, src string) (msg string) {
	var names []string
	defer func() {
		if r := recover(); r != nil {
			msg = fmt.Sprintf("history %v: panic: %v", names, r)
		}
	}()
	var f *File
	m := verifNewModel()
	if src == "" {
		f = NewEmptyFile()
	} else {
		var diags hcl.Diagnostics
		f, diags = ParseConfig([]byte(src), "t.hcl", hcl.InitialPos)
		if diags.HasErrors() {
			return "seed config does not parse"
		}
		m.attrs["a"] = "0"
		m.blocks = append(m.blocks, &verifModelBlock{"blk", []string{"l"}, verifNewModel()})
	}
	for _, i := range seq {
		names = append(names, ops[i].name)
		ops[i].run(f.Body(), m)
		if s := verifCheckBody(f.Body(), "file"); s != "" {
			return fmt.Sprintf("history %v: invariant broken: %s", names, s)
		}
		if s := verifCompare(f.Body(), m, "file"); s != "" {
			return fmt.Sprintf("history %v: %s", names, s)
		}
		out := f.Bytes()
		pf, diags := hclsyntax.ParseConfig(out, "t.hcl", hcl.InitialPos)
		if diags.HasErrors() {
			return fmt.Sprintf("history %v: serialised file %q does not parse: %s", names, out, diags.Error())
		}
		if s := verifCompareParsed(pf.Body.(*hclsyntax.Body), m, "file"); s != "" {
			return fmt.Sprintf("history %v: %s (bytes %q)", names, s, out)
		}
	}
	return ""
}

// verifLabelReadback: Labels() of a block must be the label strings, whether the
// block was loaded from source (compared against the native parser's labels) or
// generated through the writer API (compared against the strings supplied).
func verifLabelReadback(maxLen int) (int, []string) {
	var fails []string
	alphabet := []string{"a", "$", "%", "{", "}", "\"", "\\", " ", "é", "\n", "1", "~"}
	var labels []string
	var gen func(prefix string, n int)
	gen = func(prefix string, n int) {
		labels = append(labels, prefix)
		if n == 0 {
			return
		}
		for _, a := range alphabet {
			gen(prefix+a, n-1)
		}
	}
	gen("", maxLen)
	n := 0
	for _, l := range labels {
		n++
		// loaded: quote the label the way the native syntax expects
		var sb strings.Builder
		sb.WriteString("x \"")
		for i := 0; i < len(l); i++ {
			c := l[i]
			switch {
			case c == '"':
				sb.WriteString("\\\"")
			case c == '\\':
				sb.WriteString("\\\\")
			case c == '\n':
				sb.WriteString("\\n")
			case (c == '$' || c == '%') && i+1 < len(l) && l[i+1] == '{':
				sb.WriteByte(c)
				sb.WriteByte(c)
			default:
				sb.WriteByte(c)
			}
		}
		sb.WriteString("\" \"z\" {\n}\n")
		src := sb.String()
		nf, diags := hclsyntax.ParseConfig([]byte(src), "t.hcl", hcl.InitialPos)
		if !diags.HasErrors() {
			want := nf.Body.(*hclsyntax.Body).Blocks[0].Labels
			f, wdiags := ParseConfig([]byte(src), "t.hcl", hcl.InitialPos)
			if wdiags.HasErrors() {
				fails = append(fails, fmt.Sprintf("input=%q source %q parses natively but not in hclwrite", "loaded-label:"+l, src))
				continue
			}
			got := f.Body().Blocks()[0].Labels()
			if strings.Join(got, "\x00") != strings.Join(want, "\x00") {
				fails = append(fails, fmt.Sprintf("input=%q loaded %q: Labels() is %q, the source has labels %q", "loaded-label:"+l, src, got, want))
			}
		}
		// generated
		got := NewBlock("x", []string{l, "z"}).Labels()
		if strings.Join(got, "\x00") != strings.Join([]string{l, "z"}, "\x00") {
			fails = append(fails, fmt.Sprintf("input=%q NewBlock(x, [%q z]).Labels() is %q", "generated-label:"+l, l, got))
		}
	}
	return n, fails
}

func TestVerifReplayWriterOps(t *testing.T) {
	lblLen := 3
	if os.Getenv("VERIF_TIER") == "thorough" {
		lblLen = 4
	}
	nl, lfails := verifLabelReadback(lblLen)
	for i, lmsg := range lfails {
		if i < 200 {
			t.Errorf("REPLAY-FAIL func=hclwrite.(*blockLabels).Current %s", lmsg)
		}
	}
	fmt.Printf("STANDIN inputs=%d bound=\"label read-back for every label of at most %d pieces from a 12-piece alphabet, loaded and generated\"\n", nl, lblLen)
	maxLen := 4
	if os.Getenv("VERIF_TIER") == "thorough" {
		maxLen = 5
	}
	ops := verifOps()
	n := 0
	for _, src := range []string{"", "a = 0\nblk \"l\" {\n}\n"} {
		var rec func(seq []int) bool
		rec = func(seq []int) bool {
			if len(seq) > 0 {
				n++
				if msg := verifRunHistory(seq, ops, src); msg != "" {
					t.Errorf("REPLAY-FAIL func=hclwrite start=%q %s", src, msg)
					return false
				}
			}
			if len(seq) == maxLen {
				return true
			}
			for i := range ops {
				if !rec(append(append([]int{}, seq...), i)) {
					return false
				}
			}
			return true
		}
		if !rec(nil) {
			break
		}
	}
	fmt.Printf("STANDIN inputs=%d bound=\"every history of at most %d operations from a %d-operation alphabet, from an empty and from a loaded file\"\n", n, maxLen, len(ops))
}
