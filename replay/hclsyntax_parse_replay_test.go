package hclsyntax

// Dynamic oracle for unit U11 (native parser totality). Injected with
// `go test -overlay`; never part of the repository. Every sequence of at most N
// fragments from a fragment alphabet is fed to ParseConfig, ParseExpression and
// ParseTemplate: none may panic (in particular the newline-stack assertion), the
// result must be non-nil and every diagnostic must have a severity, a summary
// and ranges inside the input, and the input buffer must be left unchanged.

import (
	"fmt"
	"os"
	"testing"

	"github.com/hashicorp/hcl/v2"
)

var verifParseFragments = []string{
	"a", "=", "1", "\n", "{", "}", "[", "]", "(", ")", ",", ".", "\"", "${", "%{", "for", "in", "if", "else", "endif", "endfor", ":", "=>", "*", "<<EOT\n", "EOT\n", "?", "...", "k, ", "~}", "::",
}

func verifCheckDiags(src []byte, diags hcl.Diagnostics, what string) string {
	for _, d := range diags {
		if d.Severity != hcl.DiagError && d.Severity != hcl.DiagWarning {
			return what + ": diagnostic without severity"
		}
		if d.Summary == "" {
			return what + ": diagnostic without summary"
		}
		for _, r := range []*hcl.Range{d.Subject, d.Context} {
			if r == nil {
				continue
			}
			if r.Start.Byte < 0 || r.End.Byte < r.Start.Byte || r.End.Byte > len(src)+1 {
				return fmt.Sprintf("%s: diagnostic %q has range %d-%d outside input of length %d", what, d.Summary, r.Start.Byte, r.End.Byte, len(src))
			}
		}
	}
	return ""
}

func verifParseCheck(src string) (msg string) {
	defer func() {
		if r := recover(); r != nil {
			msg = fmt.Sprintf("panic: %v", r)
		}
	}()
	// the buffer has spare capacity, as a caller's reused buffer may: a parser that
	// appends to a sub-slice of its input would write into it
	b := append(make([]byte, 0, len(src)+64), src...)
	defer func() {
		if msg == "" && string(b) != src {
			msg = fmt.Sprintf("the parser modified its input buffer: now %q", b)
		}
	}()
	f, d := ParseConfig(b, "t.hcl", hcl.InitialPos)
	if f == nil || f.Body == nil {
		return "ParseConfig returned a nil result"
	}
	if m := verifCheckDiags(b, d, "ParseConfig"); m != "" {
		return m
	}
	e, d := ParseExpression(b, "t.hcl", hcl.InitialPos)
	if e == nil {
		return "ParseExpression returned a nil result"
	}
	if m := verifCheckDiags(b, d, "ParseExpression"); m != "" {
		return m
	}
	e, d = ParseTemplate(b, "t.hcl", hcl.InitialPos)
	if e == nil {
		return "ParseTemplate returned a nil result"
	}
	if m := verifCheckDiags(b, d, "ParseTemplate"); m != "" {
		return m
	}
	return ""
}

func TestVerifReplayParse(t *testing.T) {
	maxLen := 3
	if os.Getenv("VERIF_TIER") == "thorough" {
		maxLen = 4
	}
	n := 0
	var rec func(prefix string, k int) bool
	rec = func(prefix string, k int) bool {
		n++
		if msg := verifParseCheck(prefix); msg != "" {
			t.Errorf("REPLAY-FAIL func=hclsyntax.Parse* input=%q: %s", prefix, msg)
			return false
		}
		if k == 0 {
			return true
		}
		for _, a := range verifParseFragments {
			sep := " "
			if prefix == "" {
				sep = ""
			}
			if !rec(prefix+sep+a, k-1) {
				return false
			}
		}
		return true
	}
	rec("", maxLen)
	// the directive shapes that need longer inputs
	for _, s := range []string{"%{ for k, [v] in coll }x%{ endfor }", "%{ for k, v in coll }x%{ endfor }", "%{ for [k], v in coll }x%{ endfor }", "%{ for k v in coll }x%{ endfor }", "%{ for k, v coll }x%{ endfor }", "%{ if a }b%{ else }c%{ endif }", "%{ if }", "%{ for }", "%{ endfor }", "\"%{ for k, [v] in coll }x%{ endfor }\"", "a = \"%{ for k, [v] in c }x%{ endfor }\"\n", "a = <<EOT\n%{ for k, [v] in c }\nx\n%{ endfor }\nEOT\n", "[for k, [v] in c: v]", "{for k, v in c: k => v... if}", "a = [\n1,\n", "f(\n1,\n", "a = {\n b = 1\n", "x \"y\" z {", "x = ns :: sub :: f(1)\n", "ns /* c */ :: f()", "a::b::c(1, 2...)"} {
		n++
		if msg := verifParseCheck(s); msg != "" {
			t.Errorf("REPLAY-FAIL func=hclsyntax.Parse* input=%q: %s", s, msg)
			return
		}
	}
	// escape sequences inside quoted strings, labels, index keys and heredocs: every escape letter
	// (valid or not), unicode escapes at and around every boundary (surrogates, the last code point,
	// beyond it, too few digits), and template directives with empty branches
	escapes := []string{"\\n", "\\r", "\\t", "\\\"", "\\\\", "\\a", "\\0", "\\x41", "\\u", "\\u12", "\\u0041", "\\u00e9", "\\ud7ff", "\\ud800", "\\udbff", "\\udc00", "\\udfff", "\\ue000", "\\uffff", "\\U", "\\U0001F600", "\\U0010FFFF", "\\U00110000", "\\Uffffffff", "\\U0000d800", "\\", "$${", "%%{", "$$", "%%", "$", "%"}
	for _, e := range escapes {
		for _, shape := range []string{"a = \"%s\"\n", "a = \"x%sy\"\n", "blk \"%s\" {}\n", "blk \"l\" \"%s%s\" {\n}\n", "a = foo[\"%s\"]\n", "\"%s\"", "foo[\"%s\"]", "a = <<EOT\n%s\nEOT\n", "\"${\"%s\"}\""} {
			src := fmt.Sprintf(shape, e, e)
			if i := len(src) - len("%!(EXTRA string="+e+")"); i > 0 && src[i:] == "%!(EXTRA string="+e+")" {
				src = src[:i]
			}
			n++
			if msg := verifParseCheck(src); msg != "" {
				t.Errorf("REPLAY-FAIL func=hclsyntax.Parse* input=%q: %s", src, msg)
				return
			}
			if tr, d := ParseTraversalAbs([]byte(src), "t.hcl", hcl.InitialPos); tr == nil && !d.HasErrors() {
				t.Errorf("REPLAY-FAIL func=hclsyntax.ParseTraversalAbs input=%q: nil traversal without diagnostics", src)
				return
			}
		}
	}
	for _, s := range []string{"%{ if a }%{ else }%{ endif }", "%{ if a }x%{ else }%{ endif }", "%{ if a }%{ else }y%{ endif }", "%{ if a }%{ endif }", "%{ for x in l }%{ endfor }", "\"%{ if a }%{ else }%{ endif }\"", "a = <<EOT\n%{ if a }%{ else }%{ endif }\nEOT\n", "%{ if a }%{ else }%{ else }%{ endif }", "%{ if a ~}%{~ else ~}%{~ endif }"} {
		n++
		if msg := verifParseCheck(s); msg != "" {
			t.Errorf("REPLAY-FAIL func=hclsyntax.Parse* input=%q: %s", s, msg)
			return
		}
	}
	fmt.Printf("STANDIN inputs=%d bound=\"every sequence of at most %d fragments from a %d-fragment alphabet plus 21 longer shapes, 32 escape sequences in 9 string positions, 9 directive shapes with empty branches, 3 (+1) entry points\"\n", n, maxLen, len(verifParseFragments))
}
