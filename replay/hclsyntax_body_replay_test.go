package hclsyntax

// Dynamic oracle for unit U10 (native body content). Injected with
// `go test -overlay`; never part of the repository. Checks the schema
// processing laws of C04 and the receiver-immutability clause of C17 on the
// real code for every small body/schema combination.

import (
	"fmt"
	"sort"
	"strings"
	"testing"

	"github.com/hashicorp/hcl/v2"
)

var verifBodySources = []string{
	"",
	"a = 1\n",
	"a = 1\nb = 2\n",
	"x {}\n",
	"x {}\ny {}\nx {}\n",
	"a = 1\nx {}\nb = 2\ny \"l\" {}\nx {}\n",
	"y \"l\" {}\ny \"m\" {}\na = 1\n",
}

type verifSchemaPart struct {
	attr  string
	block string
	label bool
}

var verifParts = []verifSchemaPart{{attr: "a"}, {attr: "b"}, {block: "x"}, {block: "y", label: true}}

func verifSchema(mask int) *hcl.BodySchema {
	s := &hcl.BodySchema{}
	for i, p := range verifParts {
		if mask&(1<<i) == 0 {
			continue
		}
		if p.attr != "" {
			s.Attributes = append(s.Attributes, hcl.AttributeSchema{Name: p.attr})
		} else {
			bs := hcl.BlockHeaderSchema{Type: p.block}
			if p.label {
				bs.LabelNames = []string{"name"}
			}
			s.Blocks = append(s.Blocks, bs)
		}
	}
	return s
}

func verifDescribe(c *hcl.BodyContent) string {
	var as []string
	for k := range c.Attributes {
		as = append(as, k)
	}
	sort.Strings(as)
	var bs []string
	for _, b := range c.Blocks {
		bs = append(bs, fmt.Sprintf("%s%v@%d", b.Type, b.Labels, b.DefRange.Start.Byte))
	}
	return strings.Join(as, ",") + " | " + strings.Join(bs, ",")
}

func TestVerifReplayBodyContent(t *testing.T) {
	n := 0
	// JustAttributes on the remainder: blocks consumed by the partial step are gone
	for _, src := range []string{"a = 1\nb {\n}\n", "a = 1\nb {\n}\nc \"l\" {\n}\nd = 2\n"} {
		f, diags := ParseConfig([]byte(src), "t.hcl", hcl.InitialPos)
		if diags.HasErrors() {
			continue
		}
		n++
		_, remain, d1 := f.Body.PartialContent(&hcl.BodySchema{Blocks: []hcl.BlockHeaderSchema{{Type: "b"}, {Type: "c", LabelNames: []string{"x"}}}})
		attrs, d2 := remain.JustAttributes()
		if d1.HasErrors() || d2.HasErrors() {
			t.Errorf("REPLAY-FAIL func=hclsyntax.(*Body).JustAttributes body=%q: after PartialContent consumed every block, JustAttributes on the remainder returns %d attributes and reports: %s", src, len(attrs), d2.Error())
		}
	}
	for _, src := range verifBodySources {
		f, diags := ParseConfig([]byte(src), "t.hcl", hcl.InitialPos)
		if diags.HasErrors() {
			t.Fatalf("seed %q does not parse", src)
		}
		body := f.Body.(*Body)
		for m1 := 0; m1 < 1<<len(verifParts); m1++ {
			for m2 := 0; m2 < 1<<len(verifParts); m2++ {
				if m1&m2 != 0 {
					continue
				}
				n++
				s1, s2, su := verifSchema(m1), verifSchema(m2), verifSchema(m1|m2)
				// one step
				one, oneDiags := body.Content(su)
				// two steps
				c1, remain, d1 := body.PartialContent(s1)
				c2, d2 := remain.Content(s2)
				// receiver and remainder are not consumed: the same calls give the same answers
				c1b, remainB, _ := body.PartialContent(s1)
				if verifDescribe(c1) != verifDescribe(c1b) {
					t.Errorf("REPLAY-FAIL func=hclsyntax.(*Body).PartialContent body=%q schema=%d: repeating PartialContent on the same body gives %q then %q", src, m1, verifDescribe(c1), verifDescribe(c1b))
					return
				}
				c2b, _ := remain.Content(s2)
				c2c, _ := remainB.Content(s2)
				if verifDescribe(c2) != verifDescribe(c2b) || verifDescribe(c2) != verifDescribe(c2c) {
					t.Errorf("REPLAY-FAIL func=hclsyntax.(*Body).PartialContent body=%q schemas=%d,%d: the remaining body is consumed by use: %q / %q / %q", src, m1, m2, verifDescribe(c2), verifDescribe(c2b), verifDescribe(c2c))
					return
				}
				// a further partial step on the remainder must not disturb it either
				if m2 != 0 {
					remain.PartialContent(s2)
					c2d, _ := remain.Content(s2)
					if verifDescribe(c2) != verifDescribe(c2d) {
						t.Errorf("REPLAY-FAIL func=hclsyntax.(*Body).PartialContent body=%q schemas=%d,%d: PartialContent on a remaining body changed it: %q then %q", src, m1, m2, verifDescribe(c2), verifDescribe(c2d))
						return
					}
				}
				// two-step == one-step
				merged := &hcl.BodyContent{Attributes: hcl.Attributes{}}
				for k, v := range c1.Attributes {
					merged.Attributes[k] = v
				}
				for k, v := range c2.Attributes {
					if _, dup := merged.Attributes[k]; dup {
						t.Errorf("REPLAY-FAIL func=hclsyntax.(*Body).PartialContent body=%q: attribute %s returned twice", src, k)
						return
					}
					merged.Attributes[k] = v
				}
				merged.Blocks = append(append(hcl.Blocks{}, c1.Blocks...), c2.Blocks...)
				sort.SliceStable(merged.Blocks, func(i, j int) bool { return merged.Blocks[i].DefRange.Start.Byte < merged.Blocks[j].DefRange.Start.Byte })
				if verifDescribe(merged) != verifDescribe(one) {
					t.Errorf("REPLAY-FAIL func=hclsyntax.(*Body).PartialContent body=%q schemas=%d,%d: two-step processing gives %q, one step with the union schema gives %q", src, m1, m2, verifDescribe(merged), verifDescribe(one))
					return
				}
				twoErr := d1.HasErrors() || d2.HasErrors()
				if twoErr != oneDiags.HasErrors() {
					t.Errorf("REPLAY-FAIL func=hclsyntax.(*Body).PartialContent body=%q schemas=%d,%d: two-step errors=%v, one-step errors=%v", src, m1, m2, twoErr, oneDiags.HasErrors())
					return
				}
			}
		}
	}
	fmt.Printf("STANDIN inputs=%d bound=\"%d native bodies x all pairs of disjoint sub-schemas of a 4-item schema\"\n", n, len(verifBodySources))
}
