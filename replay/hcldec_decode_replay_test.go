package hcldec

// Dynamic oracle and bounded stand-in for unit U17 (hcldec block specs, C08).
// Injected with `go test -overlay`; never part of the repository.
//
// It decodes a small family of block specifications (map with 1..3 labels,
// list, set, tuple, object; nested attribute of a fixed or of dynamic type)
// against every body with 0..3 blocks drawn from a small alphabet of block
// contents, and checks what C08 states: no panic, and the type of the result
// conforms to ImpliedType (equal wherever the implied type is not dynamic).

import (
	"fmt"
	"sort"
	"strings"
	"testing"

	"github.com/hashicorp/hcl/v2"
	"github.com/hashicorp/hcl/v2/hclsyntax"
	"github.com/zclconf/go-cty/cty"
)

func verifConforms(got, want cty.Type) bool {
	if want == cty.DynamicPseudoType {
		return true
	}
	switch {
	case want.IsListType():
		return got.IsListType() && verifConforms(got.ElementType(), want.ElementType())
	case want.IsSetType():
		return got.IsSetType() && verifConforms(got.ElementType(), want.ElementType())
	case want.IsMapType():
		return got.IsMapType() && verifConforms(got.ElementType(), want.ElementType())
	case want.IsObjectType():
		if !got.IsObjectType() {
			return false
		}
		wa, ga := want.AttributeTypes(), got.AttributeTypes()
		if len(wa) != len(ga) {
			return false
		}
		for k, t := range wa {
			g, ok := ga[k]
			if !ok || !verifConforms(g, t) {
				return false
			}
		}
		return true
	case want.IsTupleType():
		if !got.IsTupleType() {
			return false
		}
		we, ge := want.TupleElementTypes(), got.TupleElementTypes()
		if len(we) != len(ge) {
			return false
		}
		for i := range we {
			if !verifConforms(ge[i], we[i]) {
				return false
			}
		}
		return true
	}
	return got.Equals(want)
}

type verifSpecCase struct {
	name   string
	spec   Spec
	labels int
}

func verifSpecs() []verifSpecCase {
	var out []verifSpecCase
	nested := map[string]Spec{
		"str": &AttrSpec{Name: "a", Type: cty.String},
		"dyn": &AttrSpec{Name: "a", Type: cty.DynamicPseudoType},
		"obj": ObjectSpec{"a": &AttrSpec{Name: "a", Type: cty.DynamicPseudoType}},
	}
	out = append(out, verifSpecCase{"BlockAttrsSpec/dyn", &BlockAttrsSpec{TypeName: "b", ElementType: cty.DynamicPseudoType}, 0})
	out = append(out, verifSpecCase{"BlockAttrsSpec/str", &BlockAttrsSpec{TypeName: "b", ElementType: cty.String}, 0})
	for nn, n := range nested {
		out = append(out, verifSpecCase{"BlockListSpec/" + nn, &BlockListSpec{TypeName: "b", Nested: n}, 0})
		out = append(out, verifSpecCase{"BlockSetSpec/" + nn, &BlockSetSpec{TypeName: "b", Nested: n}, 0})
		out = append(out, verifSpecCase{"BlockTupleSpec/" + nn, &BlockTupleSpec{TypeName: "b", Nested: n}, 0})
		out = append(out, verifSpecCase{"BlockSpec/" + nn, &BlockSpec{TypeName: "b", Nested: n}, 0})
		for l := 1; l <= 3; l++ {
			names := []string{"x", "y", "z"}[:l]
			if nn == "str" {
				// documented precondition: no dynamically-typed attributes inside a BlockMapSpec
				out = append(out, verifSpecCase{fmt.Sprintf("BlockMapSpec/labels=%d/%s", l, nn), &BlockMapSpec{TypeName: "b", LabelNames: names, Nested: n}, l})
			}
			out = append(out, verifSpecCase{fmt.Sprintf("BlockObjectSpec/labels=%d/%s", l, nn), &BlockObjectSpec{TypeName: "b", LabelNames: names, Nested: n}, l})
		}
	}
	return out
}

func verifDecodeOne(c verifSpecCase, src string) (msg string) {
	defer func() {
		if r := recover(); r != nil {
			msg = fmt.Sprintf("panic: %v", r)
		}
	}()
	f, diags := hclsyntax.ParseConfig([]byte(src), "t.hcl", hcl.InitialPos)
	if diags.HasErrors() {
		return ""
	}
	val, _ := Decode(f.Body, c.spec, nil)
	want := ImpliedType(c.spec)
	if !verifConforms(val.Type(), want.WithoutOptionalAttributesDeep()) {
		return fmt.Sprintf("result has type %s, ImpliedType is %s", val.Type().FriendlyName(), want.FriendlyName())
	}
	return ""
}

// verifWrappedAttrs: an attribute or block spec wrapped in validate / refine / default specs is still
// part of the schema and decodes the body's value ("when decoding reports no error the value is exactly
// the one the specification describes").
func verifWrappedAttrs() (int, []string) {
	attr := &AttrSpec{Name: "name", Type: cty.String}
	ok := func(cty.Value) hcl.Diagnostics { return nil }
	wraps := map[string]Spec{
		"validate":          &ValidateSpec{Wrapped: attr, Func: ok},
		"default(attr)":     &DefaultSpec{Primary: attr, Default: &LiteralSpec{Value: cty.StringVal("anonymous")}},
		"default(validate)": &DefaultSpec{Primary: &ValidateSpec{Wrapped: attr, Func: ok}, Default: &LiteralSpec{Value: cty.StringVal("anonymous")}},
		"validate(default)": &ValidateSpec{Wrapped: &DefaultSpec{Primary: attr, Default: &LiteralSpec{Value: cty.StringVal("anonymous")}}, Func: ok},
		"object(default(validate))": ObjectSpec{"n": &DefaultSpec{Primary: &ValidateSpec{Wrapped: attr, Func: ok}, Default: &LiteralSpec{Value: cty.StringVal("anonymous")}}},
	}
	var fails []string
	n := 0
	for name, spec := range wraps {
		n++
		f, d := hclsyntax.ParseConfig([]byte("name = \"Ermintrude\"\n"), "t.hcl", hcl.InitialPos)
		if d.HasErrors() {
			continue
		}
		v, dd := Decode(f.Body, spec, nil)
		got := v
		if v.Type().IsObjectType() && v.IsKnown() && !v.IsNull() {
			got = v.GetAttr("n")
		}
		if dd.HasErrors() || !got.RawEquals(cty.StringVal("Ermintrude")) {
			fails = append(fails, fmt.Sprintf("input=%q spec %s: name = \"Ermintrude\" decodes to %#v (errors: %v)", "wrapped/"+name, name, v, dd.HasErrors()))
		}
	}
	return n, fails
}

func TestVerifReplayDecode(t *testing.T) {
	_, wfails := verifWrappedAttrs()
	for _, m := range wfails {
		t.Errorf("REPLAY-FAIL func=hcldec.ImpliedSchema %s", m)
	}
	contents := []string{`a = "s"`, `a = true`, `a = [1]`, `a = {k = 1}`, ``, `a = nope`, "a = 1\nb = \"s\""}
	n := 0
	seenKey := map[string]bool{}
	for _, c := range verifSpecs() {
		lbl := ""
		for i := 0; i < c.labels; i++ {
			lbl += fmt.Sprintf(" \"l%d\"", i)
		}
		var rec func(blocks []string)
		rec = func(blocks []string) {
			n++
			var sb strings.Builder
			for i, b := range blocks {
				l := lbl
				if c.labels > 0 {
					// distinct first label per block so that map keys do not collide
					l = fmt.Sprintf(" \"k%d\"", i) + strings.Repeat(" \"m\"", c.labels-1)
				}
				sb.WriteString("b" + l + " {\n" + b + "\n}\n")
			}
			if msg := verifDecodeOne(c, sb.String()); msg != "" {
				kind := "type"
				if strings.HasPrefix(msg, "panic:") {
					kind = "panic"
				}
				key := fmt.Sprintf("%s/blocks=%d/%s", c.name, len(blocks), kind)
				if !seenKey[key] {
					// one example per (specification, block count, failure class)
					seenKey[key] = true
					t.Errorf("REPLAY-FAIL func=hcldec input=%q spec %s body %q: %s", key, c.name, sb.String(), msg)
				}
			}
			if len(blocks) == 3 {
				return
			}
			for _, b := range contents {
				rec(append(append([]string{}, blocks...), b))
			}
		}
		rec(nil)
	}
	fmt.Printf("STANDIN inputs=%d bound=\"every body of at most 3 blocks from a 7-content alphabet (incl. an expression that fails to evaluate) against 32 block specifications (list, set, tuple, single, map and object with 1..3 labels; string, dynamic and object-with-dynamic nested)\"\n", n)
}

// TestVerifReplayDecodeVariables (C07): decoding in a scope pruned to the roots that
// hcldec.Variables reports gives the same value and diagnostics as decoding in the full scope,
// for attribute specs at every nesting depth of the same body (object, tuple, default,
// validate, transform, refine wrappers) and inside nested blocks.
func TestVerifReplayDecodeVariables(t *testing.T) {
	attr := func(n string) Spec {
		if n == "port" {
			return &AttrSpec{Name: n, Type: cty.Number}
		}
		return &AttrSpec{Name: n, Type: cty.String}
	}
	lit := &LiteralSpec{Value: cty.StringVal("dflt")}
	wrappers := map[string]func(Spec) Spec{
		"plain":    func(s Spec) Spec { return s },
		"default":  func(s Spec) Spec { return &DefaultSpec{Primary: s, Default: lit} },
		"default2": func(s Spec) Spec { return &DefaultSpec{Primary: lit, Default: s} },
		"validate": func(s Spec) Spec {
			return &ValidateSpec{Wrapped: s, Func: func(cty.Value) hcl.Diagnostics { return nil }}
		},
		"refine": func(s Spec) Spec {
			return &RefineValueSpec{Wrapped: s, Refine: func(b *cty.RefinementBuilder) *cty.RefinementBuilder { return b }}
		},
		"object":  func(s Spec) Spec { return ObjectSpec{"in": s} },
		"tuple":   func(s Spec) Spec { return TupleSpec{s} },
		"block":   func(s Spec) Spec { return &BlockSpec{TypeName: "blk", Nested: ObjectSpec{"in": s}} },
		"blocks":  func(s Spec) Spec { return &BlockListSpec{TypeName: "blk", Nested: s} },
		"blockmap": func(s Spec) Spec { return &BlockMapSpec{TypeName: "lblk", LabelNames: []string{"k"}, Nested: s} },
	}
	src := "name = upper\nport = base + 1\nblk {\n  name = inner\n  port = other\n}\nlblk \"a\" {\n  name = labelled\n}\n"
	f, diags := hclsyntax.ParseConfig([]byte(src), "t.hcl", hcl.InitialPos)
	if diags.HasErrors() {
		t.Fatalf("oracle input does not parse: %s", diags.Error())
	}
	full := map[string]cty.Value{
		"upper": cty.StringVal("WEB"), "base": cty.NumberIntVal(8000), "inner": cty.StringVal("in"), "other": cty.NumberIntVal(1), "labelled": cty.StringVal("lab"),
	}
	key := func(v cty.Value, d hcl.Diagnostics) string {
		var ds []string
		for _, x := range d {
			ds = append(ds, fmt.Sprintf("%d|%s|%s", x.Severity, x.Summary, x.Detail))
		}
		sort.Strings(ds)
		return fmt.Sprintf("%#v ## %s", v, strings.Join(ds, " ;; "))
	}
	n := 0
	var names []string
	for w := range wrappers {
		names = append(names, w)
	}
	sort.Strings(names)
	for _, w1 := range names {
		for _, w2 := range names {
			for _, w3 := range []string{"plain", "default", "object"} {
				spec := ObjectSpec{
					"a": wrappers[w1](wrappers[w2](wrappers[w3](attr("name")))),
					"b": wrappers[w2](attr("port")),
				}
				n++
				pruned := map[string]cty.Value{}
				for _, tr := range Variables(f.Body, spec) {
					if v, ok := full[tr.RootName()]; ok {
						pruned[tr.RootName()] = v
					}
				}
				run := func(vars map[string]cty.Value) string {
					v, d := Decode(f.Body, spec, &hcl.EvalContext{Variables: vars})
					return key(v, d)
				}
				if r1, r2 := run(full), run(pruned); r1 != r2 {
					var have []string
					for k := range pruned {
						have = append(have, k)
					}
					sort.Strings(have)
					t.Errorf("REPLAY-FAIL func=hcldec.Variables input=%q attribute under %s(%s(%s)): reported roots %v; full scope gives %s, pruned scope gives %s", w1+"/"+w2+"/"+w3, w1, w2, w3, have, r1, r2)
					return
				}
			}
		}
	}
	fmt.Printf("STANDIN inputs=%d bound=\"%d specifications: an attribute under every three-deep combination of 10 wrapper kinds (default, validate, refine, object, tuple, block, block list, block map), decoded in the full scope and in the scope pruned to hcldec.Variables\"\n", n, n)
}
