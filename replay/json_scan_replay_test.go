package json

// Dynamic oracle for unit U3 (JSON scanner). Injected with `go test -overlay`
// by /verif/bin/hclverif; never part of the repository. It re-expresses the
// contracts of scan / skipWhitespace / scanNumber / scanKeyword / scanString
// in Go and searches all short inputs over a class alphabet for a failing one.

import (
	"fmt"
	"os"
	"testing"

	"github.com/hashicorp/hcl/v2"
)

var verifAlphabet = []string{" ", "\t", "\n", "\r", "\f", "{", "}", "[", ":", ",", "=", "\"", "\\", "a", "Z", "_", "1", "-", ".", "e", "\x01", "é", "́", "\xff", "#"}

func verifInputs(maxLen int, f func(s string) bool) {
	var rec func(prefix string, n int) bool
	rec = func(prefix string, n int) bool {
		if !f(prefix) {
			return false
		}
		if n == 0 {
			return true
		}
		for _, a := range verifAlphabet {
			if !rec(prefix+a, n-1) {
				return false
			}
		}
		return true
	}
	rec("", maxLen)
}

func verifIsWS(b byte) bool { return b == ' ' || b == '\n' || b == '\r' || b == '\t' }
func verifIsNum(b byte) bool {
	return b == '-' || b == '+' || b == '.' || b == 'e' || b == 'E' || (b >= '0' && b <= '9')
}
func verifIsAlpha(b byte) bool { return (b >= 'a' && b <= 'z') || (b >= 'A' && b <= 'Z') }

func verifCheckScan(src string) (msg string) {
	defer func() {
		if r := recover(); r != nil {
			msg = fmt.Sprintf("panic: %v", r)
		}
	}()
	buf := []byte(src)
	start := pos{Filename: "f", Pos: hcl.Pos{Line: 1, Column: 1, Byte: 0}}
	toks := scan(buf, start)
	if len(toks) == 0 {
		return "no tokens"
	}
	if toks[len(toks)-1].Type != tokenEOF {
		return "last token is not EOF"
	}
	prevEnd := 0
	for i, t := range toks {
		if i < len(toks)-1 && t.Type == tokenEOF {
			return fmt.Sprintf("EOF token at %d is not last", i)
		}
		if t.Range.Filename != "f" {
			return "filename not propagated"
		}
		if t.Range.Start.Byte < prevEnd {
			return fmt.Sprintf("token %d overlaps its predecessor", i)
		}
		if t.Range.Start.Byte > t.Range.End.Byte || t.Range.End.Byte > len(buf) {
			return fmt.Sprintf("token %d range %d-%d outside input of length %d", i, t.Range.Start.Byte, t.Range.End.Byte, len(buf))
		}
		if t.Type != tokenEOF {
			if string(buf[t.Range.Start.Byte:t.Range.End.Byte]) != string(t.Bytes) || len(t.Bytes) == 0 {
				return fmt.Sprintf("token %d bytes %q differ from the source bytes of its range %d-%d", i, t.Bytes, t.Range.Start.Byte, t.Range.End.Byte)
			}
		} else if len(t.Bytes) != 0 || t.Range.Start.Byte != t.Range.End.Byte {
			return "EOF token is not empty"
		}
		if t.Type != tokenEOF || i == 0 || toks[i-1].Type != tokenInvalid {
			for k := prevEnd; k < t.Range.Start.Byte; k++ {
				if !verifIsWS(buf[k]) {
					return fmt.Sprintf("gap before token %d contains non-whitespace byte %q", i, buf[k])
				}
			}
		}
		prevEnd = t.Range.End.Byte
	}
	return ""
}

func verifCheckSub(src string) (msg string) {
	defer func() {
		if r := recover(); r != nil {
			msg = fmt.Sprintf("panic: %v", r)
		}
	}()
	buf := []byte(src)
	start := pos{Filename: "f", Pos: hcl.Pos{Line: 3, Column: 5, Byte: 7}}
	// skipWhitespace
	rest, p := skipWhitespace(buf, start)
	n := len(buf) - len(rest)
	if n < 0 || string(rest) != string(buf[n:]) {
		return "skipWhitespace: rest is not a suffix"
	}
	for k := 0; k < n; k++ {
		if !verifIsWS(buf[k]) {
			return fmt.Sprintf("skipWhitespace skipped non-whitespace byte %q", buf[k])
		}
	}
	if len(rest) > 0 && verifIsWS(rest[0]) {
		return "skipWhitespace stopped before whitespace"
	}
	if p.Pos.Byte != start.Pos.Byte+n || p.Filename != "f" {
		return "skipWhitespace: byte offset wrong"
	}
	// scanNumber
	tok, rest, p := scanNumber(buf, start)
	if string(tok)+string(rest) != src {
		return "scanNumber: split does not concatenate to the input"
	}
	for _, b := range tok {
		if !verifIsNum(b) {
			return fmt.Sprintf("scanNumber consumed %q", b)
		}
	}
	if len(rest) > 0 && verifIsNum(rest[0]) {
		return "scanNumber not maximal"
	}
	if p.Pos.Byte != start.Pos.Byte+len(tok) || p.Pos.Column != start.Pos.Column+len(tok) || p.Pos.Line != start.Pos.Line {
		return "scanNumber: position wrong"
	}
	// scanKeyword
	tok, rest, p = scanKeyword(buf, start)
	if string(tok)+string(rest) != src {
		return "scanKeyword: split does not concatenate to the input"
	}
	for _, b := range tok {
		if !(verifIsAlpha(b) || b == '_') {
			return fmt.Sprintf("scanKeyword consumed %q", b)
		}
	}
	if len(rest) > 0 && (verifIsAlpha(rest[0]) || rest[0] == '_') {
		return "scanKeyword not maximal"
	}
	if p.Pos.Byte != start.Pos.Byte+len(tok) || p.Pos.Column != start.Pos.Column+len(tok) || p.Pos.Line != start.Pos.Line {
		return "scanKeyword: position wrong"
	}
	// scanString
	if len(buf) >= 1 {
		tok, rest, p = scanString(buf, start)
		if string(tok)+string(rest) != src || len(tok) < 1 {
			return "scanString: split does not concatenate to the input"
		}
		if p.Pos.Byte != start.Pos.Byte+len(tok) || p.Pos.Line != start.Pos.Line || p.Pos.Column <= start.Pos.Column || p.Pos.Column > start.Pos.Column+len(tok) {
			return "scanString: position wrong"
		}
		if len(rest) > 0 && !((tok[len(tok)-1] == '"' && len(tok) >= 2) || rest[0] < 32) {
			return "scanString stopped in the middle of a string"
		}
	}
	// (*pos).Range and posRange
	r := start.Range(2, 1)
	if r.Start != start.Pos || r.End.Byte != start.Pos.Byte+2 || r.End.Column != start.Pos.Column+1 || r.End.Line != start.Pos.Line || r.Filename != "f" {
		return "pos.Range wrong"
	}
	return ""
}

func TestVerifReplayJSONScan(t *testing.T) {
	maxLen := 3
	if os.Getenv("VERIF_TIER") == "thorough" {
		maxLen = 4
	}
	n := 0
	verifInputs(maxLen, func(s string) bool {
		n++
		if msg := verifCheckScan(s); msg != "" {
			t.Errorf("REPLAY-FAIL func=json.scan input=%q: %s", s, msg)
			return false
		}
		if msg := verifCheckSub(s); msg != "" {
			t.Errorf("REPLAY-FAIL func=json.scan* input=%q: %s", s, msg)
			return false
		}
		return true
	})
	t.Logf("replay oracle: %d inputs (all strings of at most %d symbols over a %d-symbol alphabet)", n, maxLen, len(verifAlphabet))
}
