package hclwrite

// Dynamic oracle for unit U5 (formatter). Injected with `go test -overlay`;
// never part of the repository. For every configuration assembled from a
// list of line snippets it checks C09's statement on the real Format: the
// output lexes to the same (type, bytes) token sequence as the input, still
// parses without errors, and formatting it again changes nothing.

import (
	"bytes"
	"fmt"
	"os"
	"testing"

	"github.com/hashicorp/hcl/v2"
	"github.com/hashicorp/hcl/v2/hclsyntax"
)

var verifFormatSnippets = []string{
	"a = 1\n",
	"a   =   b.c[0]\n",
	"foo = \"x${ a }y\"\n",
	"foo = \"${a}\"   # trailing   \n",
	"# heading   \n",
	"// note\t\n",
	"x = <<EOT\n${a} hello\n  world\nEOT\n",
	"x = <<-EOT\n    %{ if a }b%{ endif }\n  EOT\n",
	"y = <<EOT\nEOT\n",
	"blk \"l\" {\n",
	"}\n",
	"blk {}\n",
	"l = [1,2,  -3]\n",
	"o = {a=1, \"b\" = 2}\n",
	"f = g(a...)\n",
	"t = a?b:!c\n",
	"n = -a - -1\n",
	"s = [for k, v in m: k => v...  if v]\n",
	"u = provider::fn (x)\n",
	"z = a [0] . b\n",
	"\n",
	// gaps wider than any fixed-size space buffer: alignment next to a very long name, a long run
	// before a trailing comment
	"a_very_long_attribute_name_that_goes_on_and_on_and_on_for_more_than_forty_columns = 1\n",
	"q = 1 # c\n",
	"an_even_longer_attribute_name_that_goes_on_and_on_and_on_and_on_and_on_and_on_and_on_well_past_eighty_columns_wide = [1, 2] # note\n",
}

func verifLexSig(src []byte) ([]string, bool) {
	toks, diags := hclsyntax.LexConfig(src, "t.hcl", hcl.InitialPos)
	var out []string
	for _, t := range toks {
		out = append(out, fmt.Sprintf("%s:%q", t.Type, t.Bytes))
	}
	return out, !diags.HasErrors()
}

func verifCheckFormat(src []byte) (msg string) {
	defer func() {
		if r := recover(); r != nil {
			msg = fmt.Sprintf("panic: %v", r)
		}
	}()
	_, pd := hclsyntax.ParseConfig(src, "t.hcl", hcl.InitialPos)
	if pd.HasErrors() {
		return "" // C09 quantifies over configurations that parse without errors
	}
	out := Format(src)
	in, _ := verifLexSig(src)
	got, _ := verifLexSig(out)
	if len(in) != len(got) {
		return fmt.Sprintf("formatting changed the number of tokens from %d to %d: %q", len(in), len(got), out)
	}
	for i := range in {
		if in[i] != got[i] {
			return fmt.Sprintf("token %d changed from %s to %s: %q", i, in[i], got[i], out)
		}
	}
	if _, d := hclsyntax.ParseConfig(out, "t.hcl", hcl.InitialPos); d.HasErrors() {
		return fmt.Sprintf("formatted output no longer parses: %q: %s", out, d.Error())
	}
	if again := Format(out); !bytes.Equal(again, out) {
		return fmt.Sprintf("not idempotent: %q then %q", out, again)
	}
	f, d := ParseConfig(src, "t.hcl", hcl.InitialPos)
	if !d.HasErrors() && !bytes.Equal(f.Bytes(), out) {
		return fmt.Sprintf("File.Bytes() %q differs from Format %q", f.Bytes(), out)
	}
	return ""
}

func TestVerifReplayFormat(t *testing.T) {
	maxLines := 3
	if os.Getenv("VERIF_TIER") == "thorough" {
		maxLines = 4
	}
	n := 0
	snippets := verifFormatSnippets
	var rec func(prefix string, k int) bool
	rec = func(prefix string, k int) bool {
		n++
		if msg := verifCheckFormat([]byte(prefix)); msg != "" {
			t.Errorf("REPLAY-FAIL func=hclwrite.Format input=%q: %s", prefix, msg)
			return false
		}
		if k == 0 {
			return true
		}
		for _, s := range snippets {
			if !rec(prefix+s, k-1) {
				return false
			}
		}
		return true
	}
	// all snippets up to 3 lines; in the thorough tier additionally 4 lines over the snippets
	// without the three very long ones (which only matter for the width of a gap)
	if rec("", 3) && maxLines > 3 {
		snippets = verifFormatSnippets[:len(verifFormatSnippets)-3]
		rec("", maxLines)
	}
	fmt.Printf("STANDIN inputs=%d bound=\"every sequence of at most %d lines from %d line snippets\"\n", n, maxLines, len(verifFormatSnippets))
}
