package hclsyntax

// Dynamic oracle and bounded stand-in for unit U16 (reported variables, C07).
// Injected with `go test -overlay`; never part of the repository.
//
// For every expression of a small grammar (all scoping constructs: for with key
// and value, nested for, splat, template for/if, object keys in every spelling,
// parentheses, index, conditional, function-free), the value and diagnostics
// obtained in a scope that holds ONLY the root names Variables() reports must be
// identical to those obtained in the full scope, and names bound by for
// expressions must not be reported when they are only used as bound names.

import (
	"fmt"
	"sort"
	"strings"
	"testing"

	"github.com/hashicorp/hcl/v2"
	"github.com/zclconf/go-cty/cty"
)

func verifVarExprs() []string {
	atoms := []string{"a", "b", "k", "v", "o.x", "l[0]", "1", "\"s\"", "(a)", "(k)"}
	var out []string
	out = append(out, atoms...)
	for _, x := range atoms {
		for _, y := range atoms[:6] {
			out = append(out,
				fmt.Sprintf("[for k, v in l : %s if %s == 1]", x, y),
				fmt.Sprintf("{for k, v in o : k => %s}", x),
				fmt.Sprintf("{for v in l : %s => %s}", "\"p${v}\"", x),
				fmt.Sprintf("[for v in [for k in l : %s] : %s]", y, x),
				fmt.Sprintf("{%s = %s}", x, y),
				fmt.Sprintf("{(%s) = %s}", x, y),
				fmt.Sprintf("{\"%s\" = %s}", "q", y)+fmt.Sprintf("[%s]", "\"q\""),
				fmt.Sprintf("%s == 1 ? %s : b", y, x),
				fmt.Sprintf("l[*].%s", "x"),
				fmt.Sprintf("[%s, %s][*]", x, y),
				fmt.Sprintf("\"%%{ for k, v in l }${%s}%%{ endfor }${%s}\"", x, y),
				fmt.Sprintf("\"%%{ if %s == 1 }${%s}%%{ endif }\"", y, x),
				fmt.Sprintf("l[%s]", y),
				fmt.Sprintf("o[%s]", "\"x\""),
			)
		}
	}
	return out
}

func verifEvalKey(v cty.Value, d hcl.Diagnostics) string {
	var sb strings.Builder
	if v == cty.NilVal {
		sb.WriteString("nil")
	} else {
		sb.WriteString(v.GoString())
	}
	var ds []string
	for _, x := range d {
		ds = append(ds, fmt.Sprintf("%d|%s|%s", x.Severity, x.Summary, x.Detail))
	}
	sort.Strings(ds)
	sb.WriteString(" ## " + strings.Join(ds, " ;; "))
	return sb.String()
}

func TestVerifReplayVariables(t *testing.T) {
	full := map[string]cty.Value{
		"a": cty.NumberIntVal(1),
		"b": cty.NumberIntVal(2),
		"k": cty.NumberIntVal(3),
		"v": cty.NumberIntVal(4),
		"l": cty.ListVal([]cty.Value{cty.ObjectVal(map[string]cty.Value{"x": cty.NumberIntVal(1)})}),
		"o": cty.ObjectVal(map[string]cty.Value{"x": cty.NumberIntVal(1)}),
	}
	n, fails := 0, 0
	seen := map[string]bool{}
	for _, src := range verifVarExprs() {
		if seen[src] {
			continue
		}
		seen[src] = true
		expr, diags := ParseExpression([]byte(src), "t.hcl", hcl.InitialPos)
		if diags.HasErrors() {
			continue
		}
		n++
		pruned := map[string]cty.Value{}
		for _, tr := range expr.Variables() {
			if v, ok := full[tr.RootName()]; ok {
				pruned[tr.RootName()] = v
			}
		}
		v1, d1 := expr.Value(&hcl.EvalContext{Variables: full})
		v2, d2 := expr.Value(&hcl.EvalContext{Variables: pruned})
		if verifEvalKey(v1, d1) != verifEvalKey(v2, d2) {
			if fails < 30 {
				fails++
				var names []string
				for k := range pruned {
					names = append(names, k)
				}
				sort.Strings(names)
				t.Errorf("REPLAY-FAIL func=hclsyntax.Variables input=%q reported roots %v: full scope gives %s, scope pruned to the reported names gives %s", src, names, verifEvalKey(v1, d1), verifEvalKey(v2, d2))
			}
			continue
		}
		// a variable that is not reported must not influence the outcome
		for name := range full {
			if _, reported := pruned[name]; reported {
				continue
			}
			alt := map[string]cty.Value{}
			for k, v := range full {
				alt[k] = v
			}
			alt[name] = cty.StringVal("changed")
			v3, d3 := expr.Value(&hcl.EvalContext{Variables: alt})
			if verifEvalKey(v1, d1) != verifEvalKey(v3, d3) && fails < 30 {
				fails++
				t.Errorf("REPLAY-FAIL func=hclsyntax.Variables input=%q variable %s is not reported but changing it changes the outcome", src, name)
			}
		}
	}
	fmt.Printf("STANDIN inputs=%d bound=\"%d expressions over all scoping constructs (for, nested for, splat, template for/if, object keys bare/parenthesised/quoted, conditional, index), evaluated in the full scope, the scope pruned to the reported names, and with each unreported variable changed\"\n", n, n)
}
