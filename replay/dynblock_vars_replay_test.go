package dynblock

// Dynamic oracle and bounded stand-in for the dynamic-block variable walkers
// (C07 / C18: "the variables reported for expansion are sufficient to perform it").
// Injected with `go test -overlay`; never part of the repository.
//
// For every small configuration with (nested) dynamic blocks, built from a small
// alphabet of for_each / iterator / labels / content expressions in which the
// iterator names collide with outer variable names on purpose, expanding and
// decoding in a scope that holds only the reported root names must give the same
// value and diagnostics as in the full scope.

import (
	"bytes"
	"fmt"
	"sort"
	"strings"
	"testing"

	"github.com/hashicorp/hcl/v2"
	"github.com/hashicorp/hcl/v2/hcldec"
	"github.com/hashicorp/hcl/v2/hclsyntax"
	"github.com/zclconf/go-cty/cty"
)

func verifDynKey(v cty.Value, d hcl.Diagnostics) string {
	var ds []string
	for _, x := range d {
		ds = append(ds, fmt.Sprintf("%d|%s|%s", x.Severity, x.Summary, x.Detail))
	}
	sort.Strings(ds)
	s := "nil"
	if v != cty.NilVal {
		s = v.GoString()
	}
	return s + " ## " + strings.Join(ds, " ;; ")
}

// verifNestedExpansion: a nested pair of dynamic blocks must decode to the same value as the blocks
// written out by hand, for every choice of iterator names (default, explicit, and the same
// explicit name at both levels, where the inner iterator shadows the outer one).
func verifNestedExpansion() (int, []string) {
	spec := &hcldec.BlockListSpec{
		TypeName: "b",
		Nested: hcldec.ObjectSpec{
			"v": &hcldec.AttrSpec{Name: "v", Type: cty.String},
			"c": &hcldec.BlockListSpec{TypeName: "c", Nested: hcldec.ObjectSpec{
				"w": &hcldec.AttrSpec{Name: "w", Type: cty.String},
				"o": &hcldec.AttrSpec{Name: "o", Type: cty.String},
			}},
		},
	}
	outer := []string{"a", "b"}
	inner := []string{"x", "y"}
	var fails []string
	n := 0
	for _, oi := range []string{"", "it", "each"} {
		for _, ii := range []string{"", "jt", "each", "b"} {
			on, in := "b", "c"
			oline, iline := "", ""
			if oi != "" {
				on, oline = oi, "iterator = "+oi
			}
			if ii != "" {
				in, iline = ii, "iterator = "+ii
			}
			// the inner content refers to the inner iterator, and to the outer one when it is still visible
			oref := "\"hidden\""
			if on != in {
				oref = on + ".value"
			}
			src := fmt.Sprintf("dynamic \"b\" {\n for_each = [\"a\", \"b\"]\n %s\n content {\n  v = %s.value\n  dynamic \"c\" {\n   for_each = [\"x\", \"y\"]\n   %s\n   content {\n    w = %s.value\n    o = %s\n   }\n  }\n }\n}\n", oline, on, iline, in, oref)
			var want strings.Builder
			for _, o := range outer {
				want.WriteString(fmt.Sprintf("b {\n v = %q\n", o))
				for _, i := range inner {
					ov := o
					if on == in {
						ov = "hidden"
					}
					want.WriteString(fmt.Sprintf(" c {\n  w = %q\n  o = %q\n }\n", i, ov))
				}
				want.WriteString("}\n")
			}
			f1, d1 := hclsyntax.ParseConfig([]byte(src), "t.hcl", hcl.InitialPos)
			f2, d2 := hclsyntax.ParseConfig([]byte(want.String()), "w.hcl", hcl.InitialPos)
			if d1.HasErrors() || d2.HasErrors() {
				continue
			}
			n++
			ctx := &hcl.EvalContext{}
			v1, e1 := hcldec.Decode(Expand(f1.Body, ctx), spec, ctx)
			v2, e2 := hcldec.Decode(f2.Body, spec, ctx)
			if e1.HasErrors() != e2.HasErrors() || !v1.RawEquals(v2) {
				fails = append(fails, fmt.Sprintf("input=%q the expansion decodes to %#v, the written-out blocks to %#v", src, v1, v2))
			}
		}
	}
	return n, fails
}

// verifUnknownMarks: a dynamic block whose for_each is unknown and marked decodes, under every
// block specification kind, to a value that carries the mark (as it does for known content).
func verifUnknownMarks() (int, []string) {
	src := "dynamic \"b\" {\n for_each = secret\n content {\n  v = b.value\n }\n}\n"
	f, d := hclsyntax.ParseConfig([]byte(src), "t.hcl", hcl.InitialPos)
	if d.HasErrors() {
		return 0, nil
	}
	nested := &hcldec.AttrSpec{Name: "v", Type: cty.String}
	specs := map[string]hcldec.Spec{
		"BlockListSpec":   &hcldec.BlockListSpec{TypeName: "b", Nested: nested},
		"BlockSetSpec":    &hcldec.BlockSetSpec{TypeName: "b", Nested: nested},
		"BlockTupleSpec":  &hcldec.BlockTupleSpec{TypeName: "b", Nested: nested},
		"BlockSpec":       &hcldec.BlockSpec{TypeName: "b", Nested: nested},
		"BlockListSpec/o": &hcldec.BlockListSpec{TypeName: "b", Nested: hcldec.ObjectSpec{"v": nested}},
	}
	var fails []string
	n := 0
	for name, spec := range specs {
		for _, sv := range []cty.Value{cty.UnknownVal(cty.List(cty.String)).Mark("secret"), cty.ListVal([]cty.Value{cty.StringVal("k")}).Mark("secret")} {
			n++
			ctx := &hcl.EvalContext{Variables: map[string]cty.Value{"secret": sv}}
			v, dd := hcldec.Decode(Expand(f.Body, ctx), spec, ctx)
			if dd.HasErrors() {
				continue
			}
			if _, marks := v.UnmarkDeep(); len(marks) == 0 {
				fails = append(fails, fmt.Sprintf("input=%q for_each = %#v decodes to %#v: the mark is lost", "unknown-marked/"+name, sv, v))
			}
		}
	}
	// a known for_each collection with an unknown value inside one element: still one block per element
	{
		pspec := &hcldec.BlockListSpec{TypeName: "b", Nested: hcldec.ObjectSpec{"port": &hcldec.AttrSpec{Name: "port", Type: cty.Number}}}
		src := "dynamic \"b\" {\n for_each = items\n content {\n  port = b.value.port\n }\n}\nb {\n port = 1\n}\n"
		want := "b {\n port = u\n}\nb {\n port = 80\n}\nb {\n port = 1\n}\n"
		f1, d1 := hclsyntax.ParseConfig([]byte(src), "t.hcl", hcl.InitialPos)
		f2, d2 := hclsyntax.ParseConfig([]byte(want), "w.hcl", hcl.InitialPos)
		if !d1.HasErrors() && !d2.HasErrors() {
			n++
			ctx := &hcl.EvalContext{Variables: map[string]cty.Value{
				"u": cty.UnknownVal(cty.Number),
				"items": cty.ListVal([]cty.Value{
					cty.ObjectVal(map[string]cty.Value{"port": cty.UnknownVal(cty.Number)}),
					cty.ObjectVal(map[string]cty.Value{"port": cty.NumberIntVal(80)}),
				}),
			}}
			v1, e1 := hcldec.Decode(Expand(f1.Body, ctx), pspec, ctx)
			v2, e2 := hcldec.Decode(f2.Body, pspec, ctx)
			if e1.HasErrors() != e2.HasErrors() || !v1.RawEquals(v2) {
				fails = append(fails, fmt.Sprintf("input=%q for_each with an unknown value inside an element: the expansion decodes to %#v, the written-out blocks to %#v", src, v1, v2))
			}
		}
	}
	// a mark on one element of the for_each collection stays on what that element generates, and
	// only there (the written-out blocks say which attribute refers to the marked value)
	{
		mspec := &hcldec.BlockListSpec{TypeName: "b", Nested: hcldec.ObjectSpec{"v": &hcldec.AttrSpec{Name: "v", Type: cty.String}}}
		src := "dynamic \"b\" {\n for_each = items\n content {\n  v = b.value\n }\n}\n"
		want := "b {\n v = \"public\"\n}\nb {\n v = s\n}\n"
		f1, d1 := hclsyntax.ParseConfig([]byte(src), "t.hcl", hcl.InitialPos)
		f2, d2 := hclsyntax.ParseConfig([]byte(want), "w.hcl", hcl.InitialPos)
		if !d1.HasErrors() && !d2.HasErrors() {
			n++
			ctx := &hcl.EvalContext{Variables: map[string]cty.Value{
				"s":     cty.StringVal("hidden").Mark("secret"),
				"items": cty.TupleVal([]cty.Value{cty.StringVal("public"), cty.StringVal("hidden").Mark("secret")}),
			}}
			v1, e1 := hcldec.Decode(Expand(f1.Body, ctx), mspec, ctx)
			v2, e2 := hcldec.Decode(f2.Body, mspec, ctx)
			if e1.HasErrors() != e2.HasErrors() || !v1.RawEquals(v2) {
				fails = append(fails, fmt.Sprintf("input=%q for_each with a mark on one element: the expansion decodes to %#v, the written-out blocks to %#v", src, v1, v2))
			}
		}
	}
	return n, fails
}

// verifUnknownNested: an unknown for_each decodes to an unknown value without error diagnostics, also
// when the content holds a nested dynamic block that refers to the outer iterator (which is then
// itself unknown) - in every position where an iterator may be used.
func verifUnknownNested() (int, []string) {
	spec := &hcldec.BlockListSpec{
		TypeName: "b",
		Nested: hcldec.ObjectSpec{
			"v": &hcldec.AttrSpec{Name: "v", Type: cty.DynamicPseudoType},
			"c": &hcldec.BlockListSpec{TypeName: "c", Nested: &hcldec.AttrSpec{Name: "w", Type: cty.DynamicPseudoType}},
		},
	}
	var fails []string
	n := 0
	for _, ofe := range []string{"unk", "dyn"} {
		for _, itr := range []string{"", "iterator = it"} {
			on := "b"
			if itr != "" {
				on = "it"
			}
			for _, ife := range []string{on + ".value.items", "[" + on + ".key]", on + ".value", "[\"k\"]"} {
				for _, iv := range []string{"c.value", on + ".value", on + ".key", "\"lit\""} {
					src := fmt.Sprintf("dynamic \"b\" {\n for_each = %s\n %s\n content {\n  v = %s.value\n  dynamic \"c\" {\n   for_each = %s\n   content {\n    w = %s\n   }\n  }\n }\n}\n", ofe, itr, on, ife, iv)
					f, d := hclsyntax.ParseConfig([]byte(src), "t.hcl", hcl.InitialPos)
					if d.HasErrors() {
						continue
					}
					n++
					ctx := &hcl.EvalContext{Variables: map[string]cty.Value{
						"unk": cty.UnknownVal(cty.List(cty.Object(map[string]cty.Type{"items": cty.List(cty.String)}))),
						"dyn": cty.DynamicVal,
					}}
					v, diags := hcldec.Decode(Expand(f.Body, ctx), spec, ctx)
					if diags.HasErrors() {
						fails = append(fails, fmt.Sprintf("input=%q an unknown for_each gives error diagnostics: %s", src, diags.Error()))
					} else if v.IsWhollyKnown() {
						fails = append(fails, fmt.Sprintf("input=%q an unknown for_each decodes to the wholly known value %#v", src, v))
					}
				}
			}
		}
	}
	return n, fails
}

// verifMarkedElementDiags (C19): diagnostics raised while evaluating the content of blocks generated
// from a collection whose ELEMENTS are marked, rendered by the text writer with the evaluation
// scope, must not show the marked strings / numbers.
func verifMarkedElementDiags() (int, []string) {
	const strCanary = "s3cr3t-CANARY-5b1e"
	const numCanary = "7340219865"
	var fails []string
	n := 0
	for _, coll := range []string{"secrets", "pins", "smap"} {
		for _, itr := range []string{"", "iterator = it"} {
			on := "b"
			if itr != "" {
				on = "it"
			}
			for _, bad := range []string{on + ".value + 1", "!" + on + ".value", on + ".value.name", on + ".value[0]", "\"${" + on + ".value}\" + 1", on + ".key.x"} {
				src := fmt.Sprintf("dynamic \"b\" {\n for_each = %s\n %s\n content {\n  v = %s\n }\n}\n", coll, itr, bad)
				f, d := hclsyntax.ParseConfig([]byte(src), "t.hcl", hcl.InitialPos)
				if d.HasErrors() {
					continue
				}
				n++
				ctx := &hcl.EvalContext{Variables: map[string]cty.Value{
					"secrets": cty.ListVal([]cty.Value{cty.StringVal(strCanary).Mark("sensitive")}),
					"pins":    cty.TupleVal([]cty.Value{cty.MustParseNumberVal(numCanary).Mark("sensitive")}),
					"smap":    cty.MapVal(map[string]cty.Value{"k": cty.StringVal(strCanary).Mark("sensitive")}),
				}}
				content, diags := Expand(f.Body, ctx).Content(&hcl.BodySchema{Blocks: []hcl.BlockHeaderSchema{{Type: "b"}}})
				for _, blk := range content.Blocks {
					attrs, ad := blk.Body.JustAttributes()
					diags = append(diags, ad...)
					for _, a := range attrs {
						_, vd := a.Expr.Value(ctx)
						diags = append(diags, vd...)
					}
				}
				files := map[string]*hcl.File{"t.hcl": f}
				for _, dg := range diags {
					var buf bytes.Buffer
					if err := hcl.NewDiagnosticTextWriter(&buf, files, 0, false).WriteDiagnostic(dg); err != nil {
						continue
					}
					text := buf.String() + dg.Summary + dg.Detail
					if strings.Contains(text, strCanary) || strings.Contains(text, numCanary) {
						fails = append(fails, fmt.Sprintf("input=%q a rendered diagnostic shows the content of a marked element: %q", src, text))
						break
					}
				}
			}
		}
	}
	return n, fails
}

func TestVerifReplayDynVariables(t *testing.T) {
	kn, kfails := verifUnknownNested()
	for _, m := range kfails {
		t.Errorf("REPLAY-FAIL func=dynblock.(*expandBody).expandBlocks %s", m)
	}
	mn, mfails := verifMarkedElementDiags()
	for _, m := range mfails {
		t.Errorf("REPLAY-FAIL func=dynblock.(*expandBody).expandBlocks %s", m)
	}
	fmt.Printf("STANDIN inputs=%d bound=\"unknown for_each with a nested dynamic block using the outer iterator in every position; marked collection elements in erroneous content rendered by the text writer\"\n", kn+mn)
	un, ufails := verifUnknownMarks()
	for _, m := range ufails {
		t.Errorf("REPLAY-FAIL func=hcldec.unknownBody %s", m)
	}
	_ = un
	nn, nfails := verifNestedExpansion()
	for _, m := range nfails {
		t.Errorf("REPLAY-FAIL func=dynblock.(exprWrap).Value %s", m)
	}
	fmt.Printf("STANDIN inputs=%d bound=\"nested dynamic blocks with every combination of default / explicit / shadowing iterator names against the written-out blocks\"\n", nn)
	spec := &hcldec.BlockListSpec{
		TypeName: "b",
		Nested: hcldec.ObjectSpec{
			"v": &hcldec.AttrSpec{Name: "v", Type: cty.DynamicPseudoType},
			"c": &hcldec.BlockListSpec{TypeName: "c", Nested: &hcldec.AttrSpec{Name: "w", Type: cty.DynamicPseudoType}},
		},
	}
	full := map[string]cty.Value{
		"b":  cty.ListVal([]cty.Value{cty.StringVal("B0"), cty.StringVal("B1")}),
		"c":  cty.ListVal([]cty.Value{cty.StringVal("C0")}),
		"it": cty.ListVal([]cty.Value{cty.StringVal("I0")}),
		"x":  cty.StringVal("X"),
	}
	forEach := []string{"b", "c", "it", "[x]", "[b[0], x]"}
	iters := []string{"", "iterator = it", "iterator = x"}
	vals := []string{"b.value", "it.value", "x", "c", "\"lit\""}
	n, fails := 0, 0
	for _, fe := range forEach {
		for _, itr := range iters {
			for _, val := range vals {
				for _, ife := range forEach {
					for _, ival := range vals {
						src := fmt.Sprintf("dynamic \"b\" {\n for_each = %s\n %s\n content {\n  v = %s\n  dynamic \"c\" {\n   for_each = %s\n   content {\n    w = %s\n   }\n  }\n }\n}\nb {\n v = x\n}\n", fe, itr, val, ife, ival)
						f, diags := hclsyntax.ParseConfig([]byte(src), "t.hcl", hcl.InitialPos)
						if diags.HasErrors() {
							continue
						}
						n++
						pruned := map[string]cty.Value{}
						for _, tr := range VariablesHCLDec(f.Body, spec) {
							if v, ok := full[tr.RootName()]; ok {
								pruned[tr.RootName()] = v
							}
						}
						run := func(vars map[string]cty.Value) string {
							ctx := &hcl.EvalContext{Variables: vars}
							v, d := hcldec.Decode(Expand(f.Body, ctx), spec, ctx)
							return verifDynKey(v, d)
						}
						r1, r2 := run(full), run(pruned)
						if r1 != r2 && fails < 20 {
							fails++
							var names []string
							for k := range pruned {
								names = append(names, k)
							}
							sort.Strings(names)
							t.Errorf("REPLAY-FAIL func=dynblock.VariablesHCLDec input=%q reported roots %v: full scope gives %s, pruned scope gives %s", src, names, r1, r2)
						}
					}
				}
			}
		}
	}
	fmt.Printf("STANDIN inputs=%d bound=\"every two-level dynamic block configuration from 5 for_each x 3 iterator x 5 content expressions per level (iterator names collide with outer variables), expanded and decoded in the full scope and in the scope pruned to VariablesHCLDec\"\n", n)
}
