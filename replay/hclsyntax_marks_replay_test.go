package hclsyntax

// Dynamic oracle and bounded stand-in for unit U15 (mark propagation, C06).
// Injected with `go test -overlay`; never part of the repository.
//
// For a small grammar of expressions over the variables a, b, c and every choice
// of one marked variable, it evaluates the expression twice with two different
// contents of the marked variable (same type, same mark). If both evaluations
// are error-free and the results differ, the mark must be on the result
// (somewhere in its structure) in both evaluations.

import (
	"fmt"
	"testing"

	"github.com/hashicorp/hcl/v2"
	"github.com/zclconf/go-cty/cty"
	"github.com/zclconf/go-cty/cty/function"
)

// id(args...) returns its first argument (or "none")
var verifIDFunc = function.New(&function.Spec{
	VarParam: &function.Parameter{Name: "x", Type: cty.DynamicPseudoType, AllowUnknown: true, AllowDynamicType: true, AllowNull: true},
	Type:     function.StaticReturnType(cty.DynamicPseudoType),
	Impl: func(args []cty.Value, rt cty.Type) (cty.Value, error) {
		if len(args) == 0 {
			return cty.StringVal("none"), nil
		}
		return args[0], nil
	},
})

func verifMarkExprs() []string {
	atoms := []string{"a", "b", "c", "true", "false", "1", "null"}
	var out []string
	for _, op := range []string{"||", "&&", "==", "!=", "+", "<"} {
		for _, l := range atoms[:5] {
			for _, r := range atoms[:5] {
				out = append(out, fmt.Sprintf("%s %s %s", l, op, r))
			}
		}
	}
	for _, c := range atoms[:5] {
		for _, t := range atoms {
			for _, f := range atoms {
				out = append(out, fmt.Sprintf("%s ? %s : %s", c, t, f))
			}
		}
	}
	out = append(out,
		"n[*]", "n[*].x", "n.*.x", "n == null", "n != null ? 1 : 2", "s[*]", "[n][*]",
		"l[*]", "l[*].x", "o[*].x", "o.*.x", "[a, b][*]", "{x = a}[*].x",
		"!a", "!(a && b)", "(a || b) && c", "a ? (b || c) : (b && c)",
		"[for v in l : v]", "{for k, v in o : k => v}", "[for v in l : v if a]",
		"{for k, v in o2 : k => v if a}", "{for k, v in o2 : k => v if k == ks}", "{for k, v in o2 : k => v if !a}", "{for k, v in o2 : \"g\" => v... if k == ks}", "[for v in l2 : v if v == ki]", "[for i, v in l2 : v if i == ki]",
		"l[0]", "o.x", "o[\"x\"]", "u.x", "u[\"x\"]", "ul[0]", "%{ for x in ul }${x}%{ endfor }", "a%{ for x in ul }${x}%{ endfor }b", "%{ for x in l }${x.x}%{ endfor }", "o2[ks]", "l2[ki]", "t2[ki]", "id(ul...)", "id(dy...)", "id(l...)", "id(us)", "{(us) = 1}", "{\"${us}\" = a}", "{a = 1, (us) = 2}", "[for x in dy : x]", "{for k, x in dy : k => x}", "[for x in ul : x]", "{for k, x in l : k => x.x}", "[for x in l : x.x if a]", "\"p${us}\"", "\"${us}${a}\"", "us == \"k\"", "\"${a}\"", "\"x${a}y${b}\"", "%{ if a }yes%{ else }no%{ endif }",
	)
	return out
}

type verifMarkCase struct {
	name   string
	v1, v2 cty.Value
}

func TestVerifReplayMarks(t *testing.T) {
	base := map[string]cty.Value{
		"a": cty.True, "b": cty.False, "c": cty.True,
		"l": cty.ListVal([]cty.Value{cty.ObjectVal(map[string]cty.Value{"x": cty.NumberIntVal(1)})}),
		"o": cty.ObjectVal(map[string]cty.Value{"x": cty.NumberIntVal(1)}),
		"n": cty.NullVal(cty.Object(map[string]cty.Type{"x": cty.Number})),
		"s": cty.NullVal(cty.String),
		"u": cty.UnknownVal(cty.Object(map[string]cty.Type{"x": cty.Number})),
		"ul": cty.UnknownVal(cty.List(cty.Number)),
		"us": cty.UnknownVal(cty.String),
		"dy": cty.DynamicVal,
		"ks": cty.StringVal("x"),
		"ki": cty.NumberIntVal(0),
		"o2": cty.ObjectVal(map[string]cty.Value{"x": cty.NumberIntVal(1), "y": cty.NumberIntVal(2)}),
		"l2": cty.ListVal([]cty.Value{cty.NumberIntVal(1), cty.NumberIntVal(2)}),
		"t2": cty.TupleVal([]cty.Value{cty.NumberIntVal(1), cty.StringVal("two")}),
	}
	alts := map[string]cty.Value{
		"a": cty.False, "b": cty.True, "c": cty.False,
		"l": cty.ListVal([]cty.Value{cty.ObjectVal(map[string]cty.Value{"x": cty.NumberIntVal(2)})}),
		"o": cty.ObjectVal(map[string]cty.Value{"x": cty.NumberIntVal(2)}),
		"n": cty.ObjectVal(map[string]cty.Value{"x": cty.NumberIntVal(1)}),
		"s": cty.StringVal("x"),
		"u": cty.ObjectVal(map[string]cty.Value{"x": cty.NumberIntVal(1)}),
		"ul": cty.ListVal([]cty.Value{cty.NumberIntVal(1)}),
		"us": cty.StringVal("k"),
		"dy": cty.ListVal([]cty.Value{cty.StringVal("k")}),
		"ks": cty.StringVal("y"),
		"ki": cty.NumberIntVal(1),
		"o2": cty.ObjectVal(map[string]cty.Value{"x": cty.NumberIntVal(3), "y": cty.NumberIntVal(4)}),
		"l2": cty.ListVal([]cty.Value{cty.NumberIntVal(3), cty.NumberIntVal(4)}),
		"t2": cty.TupleVal([]cty.Value{cty.NumberIntVal(3), cty.StringVal("four")}),
	}
	n, fails := 0, 0
	for _, src := range verifMarkExprs() {
		expr, diags := ParseExpression([]byte(src), "t.hcl", hcl.InitialPos)
		if diags.HasErrors() {
			expr, diags = ParseTemplate([]byte(src), "t.hcl", hcl.InitialPos)
			if diags.HasErrors() {
				continue
			}
		}
		for name := range base {
			for _, nested := range []bool{false, true} {
				eval := func(content cty.Value) (cty.Value, bool) {
					vars := map[string]cty.Value{}
					for k, v := range base {
						vars[k] = v
					}
					if nested && content.Type().IsObjectType() && !content.IsNull() && content.IsKnown() {
						m := map[string]cty.Value{}
						for k, v := range content.AsValueMap() {
							m[k] = v.Mark("secret")
						}
						vars[name] = cty.ObjectVal(m)
					} else if nested {
						return cty.NilVal, false
					} else {
						vars[name] = content.Mark("secret")
					}
					v, d := expr.Value(&hcl.EvalContext{Variables: vars, Functions: map[string]function.Function{"id": verifIDFunc}})
					return v, !d.HasErrors()
				}
				r1, ok1 := eval(base[name])
				r2, ok2 := eval(alts[name])
				if !ok1 || !ok2 {
					continue
				}
				n++
				u1, m1 := r1.UnmarkDeep()
				u2, m2 := r2.UnmarkDeep()
				if u1.RawEquals(u2) {
					continue
				}
				_, has1 := m1["secret"]
				_, has2 := m2["secret"]
				if (!has1 || !has2) && fails < 50 {
					fails++
					t.Errorf("REPLAY-FAIL func=hclsyntax.marks input=%q expression %q with %s marked (nested=%v): results %#v and %#v differ but the mark is missing", src+"/"+name, src, name, nested, r1, r2)
				}
			}
		}
	}
	fmt.Printf("STANDIN inputs=%d bound=\"%d expressions (binary operators, conditionals, splats, for, index, templates over 3 boolean, 2 collection, 2 nullable and 4 unknown variables), each variable marked in turn (top level and nested), two contents each\"\n", n, len(verifMarkExprs()))
}
