package hclsyntax

// Bounded stand-in for C02 ("native-syntax structure parses to exactly what was written") beyond the
// peeker / quoted-literal kernel that is under contract: configurations are generated from a small
// grammar together with the structure they denote (attribute names, block types, decoded labels,
// nesting and order), parsed, and compared. Labels are built from an alphabet of literal pieces that
// covers every escape sequence of the specification. Injected with `go test -overlay`; never part of
// the repository.

import (
	"fmt"
	"strings"
	"testing"

	"github.com/hashicorp/hcl/v2"
)

type verifItem struct {
	attr   string // attribute name, or ""
	typ    string // block type, or ""
	labels []string
	body   []verifItem
}

// piece: source text inside the quotes, and the string it denotes
type verifPiece struct{ src, val string }

func verifPieces() []verifPiece {
	return []verifPiece{
		{"a", "a"}, {"é", "é"}, {`\n`, "\n"}, {`\r`, "\r"}, {`\t`, "\t"}, {`\"`, "\""}, {`\\`, "\\"},
		{`\u00e9`, "é"}, {`\U0001F600`, "\U0001F600"}, {"$${", "${"}, {"%%{", "%{"}, {"$", "$"}, {"%", "%"}, {" ", " "}, {"c:", "c:"},
	}
}

// verifVal renders the value of every attribute (the structure oracle looks at names only): "1" by
// default, replaced by multi-line renderings in the layout loop at the end of the test.
var verifVal = func(nl string, inOneLineBlock bool) string { return "1" }

// (a heredoc's closing marker must be followed by a newline: spec.md "terminated by a newline
// sequence" - renderings without the final newline are then not grammatical)
var verifHeredocVals = false

func verifRender(items []verifItem, indent string, oneLine bool, nl string) string {
	var b strings.Builder
	for _, it := range items {
		if it.attr != "" {
			b.WriteString(indent + it.attr + " = " + verifVal(nl, false) + nl)
			continue
		}
		b.WriteString(indent + it.typ)
		for _, l := range it.labels {
			b.WriteString(" " + l)
		}
		if oneLine && len(it.body) <= 1 && (len(it.body) == 0 || it.body[0].attr != "") {
			b.WriteString(" {")
			if len(it.body) == 1 {
				b.WriteString(" " + it.body[0].attr + " = " + verifVal(nl, true) + " ")
			}
			b.WriteString("}" + nl)
			continue
		}
		b.WriteString(" {" + nl)
		b.WriteString(verifRender(it.body, indent+"  ", oneLine, nl))
		b.WriteString(indent + "}" + nl)
	}
	return b.String()
}

func verifDescribe(b *Body, decoded map[string]string) string {
	// items in source order
	type ent struct {
		pos int
		s   string
	}
	var es []ent
	for _, a := range b.Attributes {
		es = append(es, ent{a.SrcRange.Start.Byte, "A:" + a.Name})
	}
	for _, blk := range b.Blocks {
		s := "B:" + blk.Type
		for _, l := range blk.Labels {
			s += fmt.Sprintf("|%q", l)
		}
		s += "{" + verifDescribe(blk.Body, decoded) + "}"
		es = append(es, ent{blk.TypeRange.Start.Byte, s})
	}
	for i := range es {
		for j := i + 1; j < len(es); j++ {
			if es[j].pos < es[i].pos {
				es[i], es[j] = es[j], es[i]
			}
		}
	}
	var out []string
	for _, e := range es {
		out = append(out, e.s)
	}
	return strings.Join(out, " ")
}

func verifExpect(items []verifItem, decoded map[string]string) string {
	var out []string
	for _, it := range items {
		if it.attr != "" {
			out = append(out, "A:"+it.attr)
			continue
		}
		s := "B:" + it.typ
		for _, l := range it.labels {
			v, ok := decoded[l]
			if !ok {
				v = l // identifier label
			}
			s += fmt.Sprintf("|%q", v)
		}
		s += "{" + verifExpect(it.body, decoded) + "}"
		out = append(out, s)
	}
	return strings.Join(out, " ")
}

func TestVerifReplayStructure(t *testing.T) {
	pieces := verifPieces()
	decoded := map[string]string{}
	var labels []string
	// every single piece, and every ordered pair of pieces, as a quoted label
	for _, p := range pieces {
		l := `"` + p.src + `"`
		decoded[l] = p.val
		labels = append(labels, l)
		for _, q := range pieces {
			if (p.src == "$" || p.src == "%") && strings.HasPrefix(q.src, "{") {
				continue
			}
			if (p.src == "$" && strings.HasPrefix(q.src, "$")) || (p.src == "%" && strings.HasPrefix(q.src, "%")) {
				continue // "$$${" reads as "$${" + ...: a different tokenisation than the two pieces
			}
			l2 := `"` + p.src + q.src + `"`
			decoded[l2] = p.val + q.val
			labels = append(labels, l2)
		}
	}
	decoded[`"x"`], decoded[`"l2"`] = "x", "l2"
	n, fails := 0, 0
	check := func(items []verifItem) {
		for _, oneLine := range []bool{false, true} {
			for _, nl := range []string{"\n", "\r\n"} {
				src := verifRender(items, "", oneLine, nl)
				for _, final := range []bool{true, false} {
					s := src
					if !final {
						if verifHeredocVals {
							continue
						}
						s = strings.TrimSuffix(s, nl)
					}
					n++
					f, diags := ParseConfig([]byte(s), "t.hcl", hcl.InitialPos)
					if diags.HasErrors() {
						if fails < 20 {
							t.Errorf("REPLAY-FAIL func=hclsyntax.ParseConfig input=%q a grammatical configuration is rejected: %s", s, diags.Error())
						}
						fails++
						continue
					}
					got, want := verifDescribe(f.Body.(*Body), decoded), verifExpect(items, decoded)
					if got != want {
						if fails < 20 {
							t.Errorf("REPLAY-FAIL func=hclsyntax.ParseConfig input=%q parsed structure is %s, written is %s", s, got, want)
						}
						fails++
					}
				}
			}
		}
	}
	// an argument defined twice in one body is always rejected, in every layout, wherever the second
	// definition sits (directly after, after a block, at the end, in a nested body, in one-line blocks)
	checkDup := func(items []verifItem, what string) {
		for _, oneLine := range []bool{false, true} {
			for _, nl := range []string{"\n", "\r\n"} {
				src := verifRender(items, "", oneLine, nl)
				n++
				_, diags := ParseConfig([]byte(src), "t.hcl", hcl.InitialPos)
				if !diags.HasErrors() {
					if fails < 20 {
						t.Errorf("REPLAY-FAIL func=hclsyntax.ParseConfig input=%q %s is accepted", src, what)
					}
					fails++
				}
			}
		}
	}
	checkDup([]verifItem{{attr: "a"}, {attr: "a"}}, "an argument defined twice in a row")
	checkDup([]verifItem{{attr: "a"}, {typ: "b"}, {attr: "c"}, {attr: "a"}}, "an argument defined twice (second definition at the end)")
	checkDup([]verifItem{{attr: "a"}, {typ: "b", body: []verifItem{{attr: "a"}}}, {attr: "a"}}, "an argument defined twice around a block that defines it too")
	checkDup([]verifItem{{typ: "b", labels: []string{`"x"`}, body: []verifItem{{attr: "k"}, {typ: "n"}, {attr: "k"}}}}, "an argument defined twice in a nested body")
	checkDup([]verifItem{{typ: "b", body: []verifItem{{typ: "c", body: []verifItem{{attr: "d"}, {attr: "e"}, {attr: "d"}}}}}, {attr: "d"}}, "an argument defined twice two levels down")
	checkDup([]verifItem{{attr: "é"}, {attr: "é"}}, "a non-ASCII argument defined twice")
	// every label alone and next to an identifier label
	for _, l := range labels {
		check([]verifItem{{typ: "blk", labels: []string{l}, body: []verifItem{{attr: "x"}}}})
		check([]verifItem{{typ: "blk", labels: []string{"id", l, l}}})
	}
	// shapes: nesting, order, several blocks of one type, attributes between blocks
	shapes := [][]verifItem{
		{{attr: "a"}, {typ: "b"}, {attr: "c"}},
		{{typ: "b", labels: []string{`"x"`}}, {typ: "b", labels: []string{`"x"`}}, {typ: "c"}},
		{{typ: "b", body: []verifItem{{typ: "c", body: []verifItem{{attr: "d"}, {typ: "e", labels: []string{"l1", `"l2"`}}}}, {attr: "f"}}}, {attr: "g"}},
		{{typ: "b", labels: []string{"l"}, body: []verifItem{{attr: "a"}, {attr: "b"}, {typ: "n"}, {attr: "c"}}}},
		{},
	}
	for _, s := range shapes {
		check(s)
	}
	// many siblings and deep nesting: a parser that keeps state across items (a depth counter, a
	// recovery flag) must behave for the 300th one-line block as for the first
	var many []verifItem
	for i := 0; i < 300; i++ {
		many = append(many, verifItem{typ: "item", labels: []string{fmt.Sprintf("n%d", i)}, body: []verifItem{{attr: "v"}}})
	}
	check(many)
	deep := []verifItem{{attr: "leaf"}}
	for i := 0; i < 60; i++ {
		deep = []verifItem{{typ: "lvl", labels: []string{fmt.Sprintf("d%d", i)}, body: deep}}
	}
	check(append(deep, many[:3]...))
	// values that span several lines: brackets (also inside one-line blocks, where the closing brace
	// then sits on a later line than the argument name) and both heredoc forms, under LF and CRLF
	for _, mk := range []func(nl string, one bool) string{
		func(nl string, one bool) string { return "[" + nl + "  80," + nl + "]" },
		func(nl string, one bool) string { return "(" + nl + "1" + nl + ")" },
		func(nl string, one bool) string { return "f(" + nl + "1," + nl + ")" },
		func(nl string, one bool) string { return "{" + nl + "k = 1" + nl + "}" },
		func(nl string, one bool) string {
			if one {
				return "1 /* c" + nl + " */"
			}
			return "<<EOT" + nl + "x ${y}" + nl + "EOT"
		},
		func(nl string, one bool) string {
			if one {
				return "1"
			}
			return "<<-EOT" + nl + "    x" + nl + "  EOT"
		},
	} {
		verifVal = mk
		verifHeredocVals = strings.HasPrefix(mk("\n", false), "<<")
		for _, sh := range shapes[:4] {
			check(sh)
		}
		check([]verifItem{{typ: "svc", labels: []string{`"x"`}, body: []verifItem{{attr: "ports"}}}, {attr: "after"}})
	}
	verifVal = func(nl string, one bool) string { return "1" }
	verifHeredocVals = false
	fmt.Printf("STANDIN inputs=%d bound=\"%d configurations: every quoted label made of one or two literal pieces from a 15-piece alphabet covering every escape sequence, in multi-line and one-line blocks, LF and CRLF, with and without final newline; 5 nesting/order shapes, 300 sibling one-line blocks, 60 levels of nesting; 6 multi-line attribute values (brackets, comments, both heredoc forms) in every shape\"\n", n, n)
}
