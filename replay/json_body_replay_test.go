package json

// Bounded stand-in for the JSON body half of C04: exhaustive processing (Content) reports every
// property that the schema does not ask for, in every JSON spelling of a body (single object, array of
// objects), also on the remainder of a partial step; partial processing never reports them and leaves
// them for the remainder. Injected with `go test -overlay`; never part of the repository.

import (
	"fmt"
	"testing"

	"github.com/hashicorp/hcl/v2"
)

func TestVerifReplayJSONBody(t *testing.T) {
	schemaA := &hcl.BodySchema{Attributes: []hcl.AttributeSchema{{Name: "name"}}}
	schemaB := &hcl.BodySchema{Attributes: []hcl.AttributeSchema{{Name: "other"}}}
	both := &hcl.BodySchema{Attributes: []hcl.AttributeSchema{{Name: "name"}, {Name: "other"}}}
	srcs := []string{
		`{"name": "x"}`, `{"name": "x", "bogus": true}`, `{"bogus": true}`,
		`[{"name": "x"}]`, `[{"name": "x"}, {"bogus": true}]`, `[{"name": "x", "bogus": 1}]`, `[{"bogus": true}, {"name": "x"}]`,
		`{"name": "x", "other": 1}`, `[{"name": "x"}, {"other": 1}]`, `[{"name": "x"}, {"other": 1, "bogus": 2}]`,
	}
	n := 0
	hasBogus := func(s string) bool {
		for i := 0; i+5 <= len(s); i++ {
			if s[i:i+5] == "bogus" {
				return true
			}
		}
		return false
	}
	for _, src := range srcs {
		f, diags := Parse([]byte(src), "t.json")
		if diags.HasErrors() {
			continue
		}
		n++
		// one exhaustive step with the union schema
		_, d1 := f.Body.Content(both)
		if d1.HasErrors() != hasBogus(src) {
			t.Errorf("REPLAY-FAIL func=json.(*body).Content input=%q Content(name, other): errors=%v, the body has an unexpected property: %v", src, d1.HasErrors(), hasBogus(src))
		}
		// two steps: partial with {name}, then exhaustive with {other} on the remainder
		_, rem, dp := f.Body.PartialContent(schemaA)
		if dp.HasErrors() {
			t.Errorf("REPLAY-FAIL func=json.(*body).PartialContent input=%q PartialContent(name) reports %s", src, dp.Error())
			continue
		}
		_, d2 := rem.Content(schemaB)
		if d2.HasErrors() != hasBogus(src) {
			t.Errorf("REPLAY-FAIL func=json.(*body).Content input=%q PartialContent(name) then Content(other) on the remainder: errors=%v, one step: %v", src, d2.HasErrors(), d1.HasErrors())
		}
	}
	// repeated block type names: every occurrence becomes a block, in source order
	blockSchema := &hcl.BodySchema{Blocks: []hcl.BlockHeaderSchema{{Type: "service", LabelNames: []string{"n"}}, {Type: "other"}}}
	type bcase struct {
		src  string
		want string
	}
	for _, c := range []bcase{
		{`{"service": {"a": {}}}`, "service.a"},
		{`[{"service": {"a": {}}}, {"service": {"b": {}}}]`, "service.a service.b"},
		{`[{"service": {"a": {}}}, {"other": {}}, {"service": {"b": {}}}]`, "service.a other service.b"},
		{`{"service": {"a": {}}, "other": {}, "service": {"b": {}}}`, "service.a other service.b"},
		{`{"service": [{"a": {}}, {"b": {}}], "other": [{}, {}]}`, "service.a service.b other other"},
	} {
		f, diags := Parse([]byte(c.src), "t.json")
		if diags.HasErrors() {
			continue
		}
		n++
		got := func(blocks hcl.Blocks) string {
			out := ""
			for i, b := range blocks {
				if i > 0 {
					out += " "
				}
				out += b.Type
				for _, l := range b.Labels {
					out += "." + l
				}
			}
			return out
		}
		c1, d1 := f.Body.Content(blockSchema)
		if d1.HasErrors() || got(c1.Blocks) != c.want {
			t.Errorf("REPLAY-FAIL func=json.(*body).PartialContent input=%q Content returns blocks [%s] (errors=%v), written are [%s]", c.src, got(c1.Blocks), d1.HasErrors(), c.want)
		}
		c2, rem, d2 := f.Body.PartialContent(blockSchema)
		_, d3 := rem.Content(&hcl.BodySchema{})
		if d2.HasErrors() || d3.HasErrors() || got(c2.Blocks) != c.want {
			t.Errorf("REPLAY-FAIL func=json.(*body).PartialContent input=%q PartialContent returns blocks [%s] (errors=%v, remainder errors=%v), written are [%s]", c.src, got(c2.Blocks), d2.HasErrors(), d3.HasErrors(), c.want)
		}
	}
	fmt.Printf("STANDIN inputs=%d bound=\"%d JSON bodies in object and array-of-objects form, one-step vs two-step processing\"\n", n, n)
}
