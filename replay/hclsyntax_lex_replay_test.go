package hclsyntax

// Dynamic oracle / bounded stand-in for the native lexer (units U2 and the
// Ragel-generated scanTokens, which is outside the condition generator's
// reach). Injected with `go test -overlay`; never part of the repository.
// It checks C14's tiling statement on the real scanTokens+emitToken for every
// string of at most N symbols over a class alphabet, in all three scan modes,
// and line/column against an independent newline/grapheme-cluster count.

import (
	"fmt"
	"os"
	"testing"
	"time"

	"github.com/apparentlymart/go-textseg/v15/textseg"
	"github.com/hashicorp/hcl/v2"
)

var verifLexAlphabet = []string{"\"", "$", "%", "{", "}", "~", "<<", "-", "a", "1", " ", "\t", "\r", "\n", "#", "/", "*", "\\", "é", "́", "\U0001F469", "\U0001F3FF", "\xff", "E", "=", ".", "[", "]", "(", ":", "?"}

func verifLexCheck(src string, mode scanMode) (msg string) {
	defer func() {
		if r := recover(); r != nil {
			msg = fmt.Sprintf("panic: %v", r)
		}
	}()
	buf := []byte(src)
	toks := scanTokens(buf, "f", hcl.Pos{Line: 1, Column: 1, Byte: 0}, mode)
	if len(toks) == 0 {
		return "no tokens"
	}
	// independent position table: position at every cluster boundary of the whole source
	type lc struct{ line, col int }
	table := map[int]lc{0: {1, 1}}
	{
		line, col, ofs := 1, 1, 0
		rest := buf
		for len(rest) > 0 {
			adv, seq, _ := textseg.ScanGraphemeClusters(rest, true)
			if (len(seq) == 1 && seq[0] == '\n') || (len(seq) == 2 && seq[0] == '\r' && seq[1] == '\n') {
				line++
				col = 1
			} else {
				col++
			}
			ofs += adv
			rest = rest[adv:]
			table[ofs] = lc{line, col}
		}
	}
	prevEnd := 0
	aligned := true // all boundaries so far are cluster boundaries of the whole source
	for i, t := range toks {
		if t.Range.Filename != "f" {
			return "filename not propagated"
		}
		if t.Type == TokenEOF && i != len(toks)-1 {
			return fmt.Sprintf("EOF token at %d is not last", i)
		}
		s, e := t.Range.Start.Byte, t.Range.End.Byte
		if s < prevEnd {
			return fmt.Sprintf("token %d (%s) starts at %d before the end %d of its predecessor", i, t.Type, s, prevEnd)
		}
		if s > e || e > len(buf) {
			return fmt.Sprintf("token %d (%s) range %d-%d outside input of length %d", i, t.Type, s, e, len(buf))
		}
		if string(buf[s:e]) != string(t.Bytes) {
			return fmt.Sprintf("token %d (%s) bytes %q differ from source bytes %q of its range", i, t.Type, t.Bytes, buf[s:e])
		}
		for k := prevEnd; k < s; k++ {
			if buf[k] != ' ' && buf[k] != '\t' {
				return fmt.Sprintf("gap before token %d (%s) contains byte %q", i, t.Type, buf[k])
			}
		}
		for _, b := range []struct {
			ofs int
			p   hcl.Pos
			nm  string
		}{{s, t.Range.Start, "start"}, {e, t.Range.End, "end"}} {
			want, ok := table[b.ofs]
			if !ok {
				aligned = false
			}
			if aligned && (b.p.Line != want.line || b.p.Column != want.col) {
				return fmt.Sprintf("token %d (%s) %s at byte %d reported as %d:%d, counting newlines and grapheme clusters gives %d:%d", i, t.Type, b.nm, b.ofs, b.p.Line, b.p.Column, want.line, want.col)
			}
		}
		prevEnd = e
	}
	last := toks[len(toks)-1]
	if last.Type != TokenEOF {
		return "stream does not end with EOF"
	}
	if last.Range.Start.Byte != len(buf) || last.Range.End.Byte != len(buf) {
		return fmt.Sprintf("EOF token at %d-%d, input length %d", last.Range.Start.Byte, last.Range.End.Byte, len(buf))
	}
	return ""
}

func TestVerifReplayLex(t *testing.T) {
	maxLen := 4
	if os.Getenv("VERIF_TIER") == "thorough" {
		maxLen = 5
	}
	if os.Getenv("VERIF_OBLIGATION") != "" {
		maxLen = 3 // replay of a failed obligation: a short search is enough to exhibit an input
	}
	n := 0
	// time budget: the enumeration stops (and says so) rather than run into the test timeout on a
	// loaded machine; all strings of at most 4 symbols are covered first, then the longer ones
	budget := 90 * time.Second
	if os.Getenv("VERIF_TIER") == "thorough" {
		budget = 200 * time.Second
	}
	deadline := time.Now().Add(budget)
	truncated := false
	var rec func(prefix string, k int) bool
	rec = func(prefix string, k int) bool {
		if truncated || (n%4096 == 0 && time.Now().After(deadline)) {
			truncated = true
			return true
		}
		for _, mode := range []scanMode{scanNormal, scanTemplate, scanIdentOnly} {
			n++
			if msg := verifLexCheck(prefix, mode); msg != "" {
				t.Errorf("REPLAY-FAIL func=hclsyntax.scanTokens mode=%d input=%q: %s", mode, prefix, msg)
				return false
			}
		}
		if k == 0 {
			return true
		}
		for _, a := range verifLexAlphabet {
			if !rec(prefix+a, k-1) {
				return false
			}
		}
		return true
	}
	if maxLen > 4 {
		rec("", 4)
	}
	rec("", maxLen)
	// heredocs need more symbols than the exhaustive bound allows: every combination of opener,
	// line ending, body and padding around the closing marker (the scanner accepts any Unicode space
	// there), on top of an attribute
	for _, open := range []string{"<<EOT", "<<-EOT"} {
		for _, nl := range []string{"\n", "\r\n"} {
			for _, body := range []string{"", "x", "  x ${a} ", "é́", "EOT x"} {
				for _, lead := range []string{"", " ", "\t", "\u00a0", "\u3000"} {
					for _, trail := range []string{"", " ", "\t", "\u00a0", "\u3000", "\f", " \u00a0"} {
						for _, after := range []string{"", "b = 1" + nl} {
							src := "a = " + open + nl
							if body != "" {
								src += body + nl
							}
							src += lead + "EOT" + trail + nl + after
							n++
							if msg := verifLexCheck(src, scanNormal); msg != "" {
								t.Errorf("REPLAY-FAIL func=hclsyntax.scanTokens mode=%d input=%q: %s", scanNormal, src, msg)
								return
							}
						}
					}
				}
			}
		}
	}
	if truncated {
		fmt.Printf("STANDIN-NOTE the enumeration was cut off by its time budget after %d inputs\n", n)
	}
	fmt.Printf("STANDIN inputs=%d bound=\"all strings of at most %d symbols over a %d-symbol class alphabet, 3 scan modes, plus 2800 heredoc layouts\"\n", n, maxLen, len(verifLexAlphabet))
}
