package hclsyntax

// Dynamic oracle and bounded stand-in for C05 (unit U14 proves only the short-circuit hooks and the
// converse clause of Index / GetAttr). Injected with `go test -overlay`; never part of the repository.
//
// For a small grammar of expressions and every subset of its variables abstracted to an unknown
// value (typed, refined or dynamic), the expression is evaluated once with the unknowns and once for
// every concrete instantiation of them. Where both evaluations are error-free the concrete result
// must be consistent with the abstract one: known parts equal, unknown parts of a conforming type
// with every refinement satisfied (cty's ValueRange.Includes). And with no unknown in scope an
// error-free result is wholly known.

import (
	"fmt"
	"testing"

	"github.com/hashicorp/hcl/v2"
	"github.com/zclconf/go-cty/cty"
	"github.com/zclconf/go-cty/cty/convert"
	"github.com/zclconf/go-cty/cty/function"
	"github.com/zclconf/go-cty/cty/function/stdlib"
)

type verifAbsVar struct {
	name     string
	unknown  []cty.Value // abstractions
	concrete []cty.Value // instantiations (each is within every abstraction)
}

func verifAbsVars() map[string]verifAbsVar {
	num := func(s string) cty.Value { return cty.MustParseNumberVal(s) }
	objT := cty.Object(map[string]cty.Type{"x": cty.Number})
	return map[string]verifAbsVar{
		"c": {"c", []cty.Value{cty.UnknownVal(cty.Bool), cty.UnknownVal(cty.Bool).RefineNotNull(), cty.DynamicVal}, []cty.Value{cty.True, cty.False}},
		"d": {"d", []cty.Value{cty.UnknownVal(cty.Bool)}, []cty.Value{cty.True, cty.False}},
		// r1 >= 1, r2 > 1 : equal bounds, different inclusiveness
		"r1": {"r1", []cty.Value{cty.UnknownVal(cty.Number).Refine().NotNull().NumberRangeLowerBound(num("1"), true).NumberRangeUpperBound(num("5"), false).NewValue(), cty.UnknownVal(cty.Number)}, []cty.Value{num("1"), num("2"), num("4.5")}},
		"r2": {"r2", []cty.Value{cty.UnknownVal(cty.Number).Refine().NotNull().NumberRangeLowerBound(num("1"), false).NumberRangeUpperBound(num("5"), true).NewValue(), cty.DynamicVal}, []cty.Value{num("1.5"), num("2"), num("5")}},
		"s": {"s", []cty.Value{cty.UnknownVal(cty.String), cty.UnknownVal(cty.String).Refine().NotNull().StringPrefix("pre").NewValue()}, []cty.Value{cty.StringVal("prefix"), cty.StringVal("préx"), cty.StringVal("pre")}},
		"t": {"t", []cty.Value{cty.UnknownVal(cty.String)}, []cty.Value{cty.StringVal("́x"), cty.StringVal("z"), cty.StringVal("")}},
		"l": {"l", []cty.Value{cty.UnknownVal(cty.List(cty.Number)), cty.UnknownVal(cty.List(cty.Number)).Refine().NotNull().CollectionLengthLowerBound(1).CollectionLengthUpperBound(3).NewValue(), cty.ListVal([]cty.Value{num("1"), cty.UnknownVal(cty.Number)})}, []cty.Value{cty.ListVal([]cty.Value{num("1"), num("2")}), cty.ListVal([]cty.Value{num("1"), num("7")})}},
		"m": {"m", []cty.Value{cty.UnknownVal(cty.List(cty.Number)).Refine().NotNull().CollectionLengthLowerBound(2).CollectionLengthUpperBound(2).NewValue()}, []cty.Value{cty.ListVal([]cty.Value{num("9"), num("8")})}},
		"o": {"o", []cty.Value{cty.UnknownVal(objT), cty.ObjectVal(map[string]cty.Value{"x": cty.UnknownVal(cty.Number)}), cty.DynamicVal}, []cty.Value{cty.ObjectVal(map[string]cty.Value{"x": num("1")}), cty.ObjectVal(map[string]cty.Value{"x": num("2")})}},
		"k": {"k", []cty.Value{cty.UnknownVal(cty.Number), cty.DynamicVal}, []cty.Value{num("0"), num("1")}},
	}
}

// fixed (never abstracted) part of the scope
func verifAbsFixed() map[string]cty.Value {
	return map[string]cty.Value{
		"nul":  cty.NullVal(cty.DynamicPseudoType),
		"nb":   cty.NullVal(cty.Bool),
		"kl":   cty.ListVal([]cty.Value{cty.MustParseNumberVal("4"), cty.MustParseNumberVal("5")}),
		"ko":   cty.ObjectVal(map[string]cty.Value{"x": cty.MustParseNumberVal("3")}),
		"kt":   cty.TupleVal([]cty.Value{cty.True, cty.StringVal("q")}),
		"km":   cty.MapVal(map[string]cty.Value{"a": cty.StringVal("A")}),
		"tr":   cty.True,
		"one":  cty.MustParseNumberVal("1"),
		"word": cty.StringVal("w"),
	}
}

func verifAbsExprs() []string {
	return []string{
		"c || d", "c && d", "c || tr", "tr || c", "c && tr", "!c", "c || nb", "nb || c", "nb && c", "c == d", "c != tr",
		"c ? r1 : r2", "c ? r2 : r1", "c ? r1 : one", "c ? one : r2", "c ? l : m", "c ? m : l", "c ? l : kl", "c ? s : t", "c ? s : word", "c ? o : ko", "c ? nul : one", "c ? nb : tr", "tr ? r1 : r2", "d ? (c ? r1 : r2) : one",
		"\"abc${t}\"", "\"${s}${t}\"", "\"é${t}\"", "\"a${r1}\"", "\"${word}${t}e\"", "\"x%{ if c }y%{ endif }\"", "\"%{ for v in l }${v}%{ endfor }\"", "\"${t}\"",
		"l[*]", "l[0]", "l[k]", "kl[k]", "o.x", "o[\"x\"]", "ko[s]", "kt[k]", "km[s]", "l.*", "o[*]", "o.*.x", "[for v in l : v]", "[for v in l : v if c]", "{for i, v in l : i => v}", "{for i, v in kl : i => v if c}", "[for v in kl : v if v == r1]", "{(s) = 1}", "{a = r1, b = s}", "[r1, s, c]", "r1 + r2", "r1 < r2", "r1 == one", "-r1", "length(l)", "length(m)", "upper(s)", "kl[nul]", "ko[nul]", "nul[0]", "nul.x", "kl[one]", "ko.x", "kt[one]", "km[\"a\"]", "km.a", "nb ? 1 : 2",
	}
}

func verifConsistent(abs, conc cty.Value, path string) string {
	abs, _ = abs.UnmarkDeep()
	conc, _ = conc.UnmarkDeep()
	if !abs.IsKnown() {
		if abs.Type() != cty.DynamicPseudoType {
			if _, err := convert.Convert(conc, abs.Type()); err != nil {
				return fmt.Sprintf("%s: abstract result is an unknown %s, a concrete result is %#v", path, abs.Type().FriendlyName(), conc)
			}
			if cv, err := convert.Convert(conc, abs.Type()); err == nil {
				conc = cv
			}
		}
		inc := abs.Range().Includes(conc)
		if inc.IsKnown() && inc.False() {
			return fmt.Sprintf("%s: abstract result %#v does not admit the concrete result %#v", path, abs, conc)
		}
		return ""
	}
	if abs.IsNull() || conc.IsNull() {
		if abs.IsNull() != conc.IsNull() {
			return fmt.Sprintf("%s: abstract %#v, concrete %#v", path, abs, conc)
		}
		return ""
	}
	if !conc.IsKnown() {
		return fmt.Sprintf("%s: concrete evaluation gave an unknown value %#v", path, conc)
	}
	aty, cty2 := abs.Type(), conc.Type()
	switch {
	case aty.IsPrimitiveType():
		cv, err := convert.Convert(abs, cty2)
		if err != nil || !cv.RawEquals(conc) {
			return fmt.Sprintf("%s: abstract result is the known value %#v, a concrete result is %#v", path, abs, conc)
		}
	case (aty.IsListType() || aty.IsTupleType() || aty.IsSetType()) && (cty2.IsListType() || cty2.IsTupleType() || cty2.IsSetType()):
		if aty.IsSetType() || cty2.IsSetType() {
			return ""
		}
		if abs.LengthInt() != conc.LengthInt() {
			return fmt.Sprintf("%s: abstract result has %d elements, a concrete result %d", path, abs.LengthInt(), conc.LengthInt())
		}
		as, cs := abs.AsValueSlice(), conc.AsValueSlice()
		for i := range as {
			if m := verifConsistent(as[i], cs[i], fmt.Sprintf("%s[%d]", path, i)); m != "" {
				return m
			}
		}
	case (aty.IsObjectType() || aty.IsMapType()) && (cty2.IsObjectType() || cty2.IsMapType()):
		am, cm := abs.AsValueMap(), conc.AsValueMap()
		if len(am) != len(cm) {
			return fmt.Sprintf("%s: abstract result has %d attributes, a concrete result %d", path, len(am), len(cm))
		}
		for k, av := range am {
			cv, ok := cm[k]
			if !ok {
				return fmt.Sprintf("%s: attribute %q missing from a concrete result", path, k)
			}
			if m := verifConsistent(av, cv, path+"."+k); m != "" {
				return m
			}
		}
	}
	return ""
}

func TestVerifReplayUnknown(t *testing.T) {
	vars := verifAbsVars()
	funcs := map[string]function.Function{"length": stdlib.LengthFunc, "upper": stdlib.UpperFunc}
	n, fails := 0, 0
	report := func(format string, args ...interface{}) {
		if fails < 20 {
			t.Errorf("REPLAY-FAIL func=hclsyntax.Expression.Value "+format, args...)
		}
		fails++
	}
	for _, src := range verifAbsExprs() {
		expr, diags := ParseTemplateOrExpr(src)
		if diags.HasErrors() {
			continue
		}
		var used []verifAbsVar
		for _, tr := range expr.Variables() {
			if v, ok := vars[tr.RootName()]; ok {
				dup := false
				for _, u := range used {
					dup = dup || u.name == v.name
				}
				if !dup {
					used = append(used, v)
				}
			}
		}
		// concrete instantiations: the cartesian product of the used variables' candidates
		var concs []map[string]cty.Value
		var prod func(i int, cur map[string]cty.Value)
		prod = func(i int, cur map[string]cty.Value) {
			if i == len(used) {
				m := verifAbsFixed()
				for k, v := range cur {
					m[k] = v
				}
				concs = append(concs, m)
				return
			}
			for _, c := range used[i].concrete {
				cur[used[i].name] = c
				prod(i+1, cur)
			}
			delete(cur, used[i].name)
		}
		prod(0, map[string]cty.Value{})
		type res struct {
			v  cty.Value
			ok bool
		}
		eval := func(scope map[string]cty.Value) (r res) {
			defer func() {
				if p := recover(); p != nil {
					r = res{ok: false}
					report("input=%q scope=%#v: panic %v", src, scope, p)
				}
			}()
			v, d := expr.Value(&hcl.EvalContext{Variables: scope, Functions: funcs})
			return res{v, !d.HasErrors()}
		}
		concRes := make([]res, len(concs))
		for i, sc := range concs {
			n++
			concRes[i] = eval(sc)
			if concRes[i].ok && !concRes[i].v.IsWhollyKnown() {
				report("input=%q with no unknown value in scope the error-free result is not wholly known: %#v", src, concRes[i].v)
			}
		}
		// every non-empty subset of the used variables, every abstraction of each
		for mask := 1; mask < 1<<len(used); mask++ {
			var choose func(i int, abs map[string]cty.Value)
			choose = func(i int, abs map[string]cty.Value) {
				if i == len(used) {
					n++
					sc := verifAbsFixed()
					for k, v := range abs {
						sc[k] = v
					}
					// the variables that stay concrete take each of their candidates in turn: the
					// abstract run is compared with the concrete runs that agree on them
					for ci, cs := range concs {
						agree := true
						scope := map[string]cty.Value{}
						for k, v := range sc {
							scope[k] = v
						}
						for _, u := range used {
							if _, isAbs := abs[u.name]; !isAbs {
								scope[u.name] = cs[u.name]
							}
						}
						_ = agree
						ar := eval(scope)
						if !ar.ok || !concRes[ci].ok {
							continue
						}
						if m := verifConsistent(ar.v, concRes[ci].v, "result"); m != "" {
							report("input=%q abstract scope %#v: %s", src, abs, m)
							return
						}
					}
					return
				}
				if mask&(1<<i) == 0 {
					choose(i+1, abs)
					return
				}
				for _, u := range used[i].unknown {
					abs[used[i].name] = u
					choose(i+1, abs)
				}
				delete(abs, used[i].name)
			}
			choose(0, map[string]cty.Value{})
		}
	}
	fmt.Printf("STANDIN inputs=%d bound=\"%d expressions (logical operators, conditionals over refined numbers / collections / strings, templates, index, attribute, splat, for, function calls) x every subset of their variables abstracted to a typed, refined or dynamic unknown x every concrete instantiation from 2-3 candidates per variable\"\n", n, len(verifAbsExprs()))
}

// ParseTemplateOrExpr parses src as a template when it is quoted, else as an expression.
func ParseTemplateOrExpr(src string) (Expression, hcl.Diagnostics) {
	return ParseExpression([]byte(src), "t.hcl", hcl.InitialPos)
}
