package hclwrite

// Dynamic oracle for unit U6 (writer loader). Injected with `go test -overlay`;
// never part of the repository. For every configuration assembled from a list
// of line snippets that parses without errors: loading it into the writer AST
// must not panic, and saving the unmodified tree must give the same
// (type, bytes) token sequence as the source (C10).

import (
	"fmt"
	"os"
	"testing"

	"github.com/hashicorp/hcl/v2"
	"github.com/hashicorp/hcl/v2/hclsyntax"
)

var verifLoaderSnippets = []string{
	"a = 1\n",
	"a = foo.bar[0].baz\n",
	"a = foo[true]\n",
	"a = foo[null]\n",
	"a = foo[\"k\"]\n",
	"a = foo./* why */bar\n",
	"a = foo /* c */ .bar /* x */ [0]\n",
	"a = (\n foo.\n bar\n)\n",
	"a = foo.*.bar.0\n",
	"a = foo[*].bar\n",
	"b /* c */ \"l\" {}\n",
	"b \"l\" /* d */ \"m\" {\n",
	"b l {\n",
	"s { a = foo }\n",
	"s \"l\" { a = 1 } # c\n",
	"s {}\n",
	"}\n",
	"# lead\n",
	"x = 1 # trail\n",
	"x = 1 /* u */ /* n */\n",
	"s { a = 1 } /* u */ # c\n",
	"t = \"a${b.c}d\"\n",
	"h = <<EOT\n${a.b}\nEOT\n",
	"f = g(a.b, [c.d]...)\n",
	"o = {for k, v in m.n : k => v.w}\n",
	"\n",
}

func verifLoaderCheck(src []byte) (msg string) {
	defer func() {
		if r := recover(); r != nil {
			msg = fmt.Sprintf("panic: %v", r)
		}
	}()
	if _, d := hclsyntax.ParseConfig(src, "t.hcl", hcl.InitialPos); d.HasErrors() {
		return ""
	}
	f, d := ParseConfig(src, "t.hcl", hcl.InitialPos)
	if d.HasErrors() || f == nil {
		return "the writer loader rejects a configuration the parser accepts"
	}
	out := f.Bytes()
	in, _ := hclsyntax.LexConfig(src, "t.hcl", hcl.InitialPos)
	got, _ := hclsyntax.LexConfig(out, "t.hcl", hcl.InitialPos)
	if len(in) != len(got) {
		return fmt.Sprintf("saving the unmodified tree changed the number of tokens from %d to %d: %q", len(in), len(got), out)
	}
	for i := range in {
		if in[i].Type != got[i].Type || string(in[i].Bytes) != string(got[i].Bytes) {
			return fmt.Sprintf("token %d changed from %s %q to %s %q: %q", i, in[i].Type, in[i].Bytes, got[i].Type, got[i].Bytes, out)
		}
	}
	return ""
}

func TestVerifReplayLoader(t *testing.T) {
	maxLines := 3
	if os.Getenv("VERIF_TIER") == "thorough" {
		maxLines = 4
	}
	n := 0
	var rec func(prefix string, k int) bool
	rec = func(prefix string, k int) bool {
		n++
		if msg := verifLoaderCheck([]byte(prefix)); msg != "" {
			t.Errorf("REPLAY-FAIL func=hclwrite.ParseConfig input=%q: %s", prefix, msg)
			return false
		}
		if k == 0 {
			return true
		}
		for _, s := range verifLoaderSnippets {
			if !rec(prefix+s, k-1) {
				return false
			}
		}
		return true
	}
	rec("", maxLines)
	fmt.Printf("STANDIN inputs=%d bound=\"every sequence of at most %d lines from %d line snippets\"\n", n, maxLines, len(verifLoaderSnippets))
}
