package hclsyntax

// Bounded stand-in for the parser half of C14: for error-free parses, the range recorded for every
// expression node slices the source to text that parses again without errors, as an expression (or as a
// template, for the nodes a template is made of). Injected with `go test -overlay`; never part of the
// repository.

import (
	"fmt"
	"strings"
	"testing"

	"github.com/apparentlymart/go-textseg/v15/textseg"
	"github.com/hashicorp/hcl/v2"
)

// verifPosAt computes the line and column (in grapheme clusters, both 1-based) of a byte offset.
func verifPosAt(src string, off int) (int, int) {
	line, start := 1, 0
	for i := 0; i < off && i < len(src); i++ {
		if src[i] == '\n' {
			line++
			start = i + 1
		}
	}
	n, _ := textseg.TokenCount([]byte(src[start:off]), textseg.ScanGraphemeClusters)
	return line, n + 1
}

type verifRangeCase struct{ src, expr string }

func verifRangeCorpus() []verifRangeCase {
	exprs := []string{
		"a", "a.b", "a[0]", "a.b[c].d", "a.*.b", "a.*.b.0", "a[*].b[0].c", "a.0.b", "f(a, b...)", "ns::f(1)",
		"a ? b : c", "[\n  b ? 1 : 2,\n]", "[\n  /* c */ b ? 1 : 2, # d\n]", "!a", "-a", "a + b * c", "(a + b)",
		"[1, 2, a]", "{x = 1, y = a}", "{(k) = v}", "[for v in l : v]", "{for k, v in m : k => v if v}", "{for k, v in m : k => v...}",
		"\"lit\"", "\"a${b}c\"", "\"%{ if c }yes%{ else }no%{ endif }\"", "\"%{ for x in l }${x}%{ endfor }\"", "\"%{ for k, x in l ~}${x}%{~ endfor }\"",
		"<<EOT\nhello ${a}\nEOT", "<<-EOT\n  %{ if c }x%{ endif }\n  EOT",
		"<<-EOT\n    foo\n  bar ${a}\n  EOT", "<<-EOT\n\u3000\u3000foo\n\u3000\u3000bar\n\u3000\u3000EOT", "<<-EOT\n\t\u00a0é${a}\n\t\u00a0x\n\tEOT",
		"\"é${a}ü\"", "[\"日本\", a]",
		"l[i] ? a : b", "t[*].ok ? 1 : 0", "a.b[c] == \"x\" ? 1 : 2", "l.*.x ? a : b", "(a)[0] ? 1 : 2", "f(a)[0] + 1", "a[0].b[1] * 2", "!l[i]", "-t[*].n[0]",
		"f(a).b.c", "(x).y.z", "[1, 2][0][1]", "xs[*].id.name", "f(1).x.y + 1", "{a = 1}.a.b", "\"s\".x.y", "a.b.c.d[0].e",
	}
	var out []verifRangeCase
	for _, e := range exprs {
		out = append(out, verifRangeCase{"x = " + e + "\n", e})
		out = append(out, verifRangeCase{"blk \"l\" {\n  y = " + e + " # trailing\n}\n", e})
	}
	return out
}

func verifCheckRanges(src, expr string) string {
	f, diags := ParseConfig([]byte(src), "t.hcl", hcl.InitialPos)
	if diags.HasErrors() {
		return ""
	}
	msg := ""
	// the attribute's expression must cover exactly the expression text that was written
	body := f.Body.(*Body)
	for len(body.Blocks) > 0 {
		body = body.Blocks[0].Body
	}
	for _, attr := range body.Attributes {
		rng := attr.Expr.Range()
		if rng.Start.Byte < 0 || rng.End.Byte > len(src) || rng.Start.Byte > rng.End.Byte || src[rng.Start.Byte:rng.End.Byte] != expr {
			return fmt.Sprintf("the expression %q has range %d-%d", expr, rng.Start.Byte, rng.End.Byte)
		}
	}
	//nolint:errcheck
	VisitAll(f.Body.(*Body), func(n Node) hcl.Diagnostics {
		if msg != "" {
			return nil
		}
		rng := n.Range()
		if rng.Start.Byte < 0 || rng.End.Byte > len(src) || rng.Start.Byte > rng.End.Byte {
			msg = fmt.Sprintf("%T has range %d-%d outside the %d-byte source", n, rng.Start.Byte, rng.End.Byte, len(src))
			return nil
		}
		// line and column agree with the byte offset (columns count grapheme clusters); the
		// Attributes and Blocks collections have no range of their own
		_, isColl1 := n.(Attributes)
		_, isColl2 := n.(Blocks)
		if isColl1 || isColl2 {
			return nil
		}
		if l, c := verifPosAt(src, rng.Start.Byte); l != rng.Start.Line || c != rng.Start.Column {
			msg = fmt.Sprintf("%T starts at byte %d, which is line %d column %d, but is reported at line %d column %d", n, rng.Start.Byte, l, c, rng.Start.Line, rng.Start.Column)
			return nil
		}
		if l, c := verifPosAt(src, rng.End.Byte); l != rng.End.Line || c != rng.End.Column {
			msg = fmt.Sprintf("%T ends at byte %d, which is line %d column %d, but is reported at line %d column %d", n, rng.End.Byte, l, c, rng.End.Line, rng.End.Column)
			return nil
		}
		text := src[rng.Start.Byte:rng.End.Byte]
		_, isLit := n.(*LiteralValueExpr) // literal parts of a template may be any text, including spaces
		if _, isExpr := n.(Expression); isExpr && !isLit && text != "" {
			if strings.TrimSpace(text) != text || strings.HasPrefix(text, "/*") || strings.HasPrefix(text, "#") || strings.HasPrefix(text, "//") {
				msg = fmt.Sprintf("the range of a %T slices to %q: it includes surrounding space or a comment", n, text)
				return nil
			}
		}
		switch n.(type) {
		case *ConditionalExpr, *ForExpr, *SplatExpr, *IndexExpr, *RelativeTraversalExpr, *ScopeTraversalExpr, *FunctionCallExpr, *BinaryOpExpr, *UnaryOpExpr, *TupleConsExpr, *ObjectConsExpr, *ParenthesesExpr, *LiteralValueExpr:
			// nodes produced from template directives slice to template text, the others to expression text
			_, d1 := ParseExpression([]byte(text), "slice", hcl.InitialPos)
			if d1.HasErrors() {
				_, d2 := ParseTemplate([]byte(text), "slice", hcl.InitialPos)
				if d2.HasErrors() {
					msg = fmt.Sprintf("the range of a %T slices to %q, which parses neither as an expression (%s) nor as a template", n, text, d1.Error())
				}
			}
		}
		return nil
	})
	return msg
}

func TestVerifReplayRanges(t *testing.T) {
	n := 0
	for _, c := range verifRangeCorpus() {
		n++
		if msg := verifCheckRanges(c.src, c.expr); msg != "" {
			t.Errorf("REPLAY-FAIL func=hclsyntax.ranges input=%q %s", c.src, msg)
		}
	}
	fmt.Printf("STANDIN inputs=%d bound=\"%d configurations covering every expression form (traversals, legacy index and splat forms, calls, conditionals, for, templates with if/for directives, heredocs), each expression node's range re-parsed\"\n", n, n)
}
