package json

// Dynamic oracle and bounded stand-in for unit U4b (JSON string expressions, C13).
// Injected with `go test -overlay`; never part of the repository.
//
// For every string built from a small alphabet of template fragments: in
// full-expression mode the JSON string must evaluate to exactly what the native
// template parser assigns to its content (value and presence of errors); in
// literal-only mode (nil context) it must be the string itself.

import (
	stdjson "encoding/json"
	"fmt"
	"os"
	"testing"

	"github.com/hashicorp/hcl/v2"
	"github.com/hashicorp/hcl/v2/hclsyntax"
	"github.com/zclconf/go-cty/cty"
)

func TestVerifReplayJSONExpr(t *testing.T) {
	frags := []string{"a", "${", "%{", "}", "$${", "%%{", " if true ", " endif ", " else ", "v", "\"", "\\", "~", " "}
	maxLen := 3
	if os.Getenv("VERIF_TIER") == "thorough" {
		maxLen = 4
	}
	ctx := &hcl.EvalContext{Variables: map[string]cty.Value{"v": cty.StringVal("V")}}
	n, fails := 0, 0
	var rec func(s string, k int)
	rec = func(s string, k int) {
		n++
		enc, _ := stdjson.Marshal(s)
		src := []byte(`{"k": ` + string(enc) + `}`)
		f, diags := Parse(src, "t.json")
		if diags.HasErrors() {
			if fails < 20 {
				fails++
				t.Errorf("REPLAY-FAIL func=json.(*expression).Value input=%q valid JSON rejected: %s", s, diags.Error())
			}
		} else {
			attrs, _ := f.Body.JustAttributes()
			got, gotDiags := attrs["k"].Expr.Value(ctx)
			tmpl, pDiags := hclsyntax.ParseTemplate([]byte(s), "t.json", hcl.InitialPos)
			var want cty.Value
			wantErr := pDiags.HasErrors()
			if !wantErr {
				var vd hcl.Diagnostics
				want, vd = tmpl.Value(ctx)
				wantErr = vd.HasErrors()
			}
			if gotDiags.HasErrors() != wantErr || (!wantErr && !got.RawEquals(want)) {
				if fails < 20 {
					fails++
					t.Errorf("REPLAY-FAIL func=json.(*expression).Value input=%q full-expression mode gives %#v (errors=%v), the native template parser gives %#v (errors=%v)", s, got, gotDiags.HasErrors(), want, wantErr)
				}
			}
			lit, litDiags := attrs["k"].Expr.Value(nil)
			if litDiags.HasErrors() || !lit.RawEquals(cty.StringVal(s)) {
				if fails < 20 {
					fails++
					t.Errorf("REPLAY-FAIL func=json.(*expression).Value input=%q literal-only mode gives %#v", s, lit)
				}
			}
		}
		if k == 0 {
			return
		}
		for _, fr := range frags {
			rec(s+fr, k-1)
		}
	}
	rec("", maxLen)
	// acceptance agrees with encoding/json on texts with unusual leading / trailing bytes
	for _, core := range []string{"true", "{\"a\": 1}", "[1, 2]", "12", "\"s\""} {
		for _, pad := range []string{"", " ", "\n", "\t", "\r", "\v", "\f", "\u00a0", "\u2028", "\x00", "\ufeff"} {
			for _, txt := range []string{core + pad, pad + core} {
				n++
				_, d := ParseExpression([]byte(txt), "t.json")
				if d.HasErrors() == stdjson.Valid([]byte(txt)) {
					t.Errorf("REPLAY-FAIL func=json.ParseExpression input=%q accepted=%v but encoding/json.Valid=%v", txt, !d.HasErrors(), stdjson.Valid([]byte(txt)))
				}
			}
		}
	}
	// ... and on scalars, well-formed or not, in every nesting position: a malformed value anywhere
	// makes the whole text unacceptable
	scalars := []string{"true", "false", "null", "flase", "tru", "nul", "True", "12", "-0.5e-3", "01", "-", "1.", ".5", "1e", "1e+", "+1", "0x1", "NaN", "\"ok\"", "\"\\q\"", "\"\\u12\"", "\"a\tb\"", "\"unterminated", "", "{}", "[]", "[1,]", "{\"k\":}", "{\"k\" 1}"}
	positions := []string{"%s", "{\"a\": %s}", "[%s]", "{\"a\": [%s]}", "[{\"deep\": {\"x\": %s}}]", "{\"a\": %s, \"b\": 1}", "{\"b\": 1, \"a\": %s}", "[1, %s]", "[%s, 1]", "{\"a\": {\"b\": {\"c\": [[%s]]}}}"}
	for _, sc := range scalars {
		for _, pos := range positions {
			txt := fmt.Sprintf(pos, sc)
			n++
			_, d := ParseExpression([]byte(txt), "t.json")
			if d.HasErrors() == stdjson.Valid([]byte(txt)) {
				t.Errorf("REPLAY-FAIL func=json.ParseExpression input=%q accepted=%v but encoding/json.Valid=%v", txt, !d.HasErrors(), stdjson.Valid([]byte(txt)))
			}
			if len(txt) > 0 && txt[0] == '{' {
				_, d := Parse([]byte(txt), "t.json")
				if d.HasErrors() == stdjson.Valid([]byte(txt)) {
					t.Errorf("REPLAY-FAIL func=json.Parse input=%q accepted=%v but encoding/json.Valid=%v", txt, !d.HasErrors(), stdjson.Valid([]byte(txt)))
				}
			}
		}
	}
	// object keys computed from marked values: no panic, and the mark is on the object
	for _, kv := range []cty.Value{cty.StringVal("x").Mark("secret"), cty.UnknownVal(cty.String).Mark("secret")} {
		func() {
			n++
			defer func() {
				if r := recover(); r != nil {
					t.Errorf("REPLAY-FAIL func=json.(*expression).Value input=%q object key from %#v: panic: %v", "marked-key", kv, r)
				}
			}()
			f, diags := Parse([]byte(`{"a": {"${k}": 1, "b": 2}}`), "t.json")
			if diags.HasErrors() {
				return
			}
			attrs, _ := f.Body.JustAttributes()
			v, d := attrs["a"].Expr.Value(&hcl.EvalContext{Variables: map[string]cty.Value{"k": kv}})
			if !d.HasErrors() && !v.HasMark("secret") {
				t.Errorf("REPLAY-FAIL func=json.(*expression).Value input=%q object key from %#v: result %#v lost the mark", "marked-key", kv, v)
			}
		}()
	}
	fmt.Printf("STANDIN inputs=%d bound=\"every JSON string of at most %d fragments from a %d-fragment template alphabet, full-expression and literal-only mode\"\n", n, maxLen, len(frags))
}
