#!/bin/bash
# Must-fail corpus: every patch under selftest/mutants (named <Cxx>-<what>.patch) and every
# confirmed seeded change under seeded/<Cxx>-<V>/patch.diff is applied to a scratch copy of
# /repo and the property's check must report a VIOLATION. Prints one line per mutant.
cd /verif
# work on a snapshot of /repo and of the checker, so that edits made while this runs do not matter
export SELFTEST_SNAP=$(mktemp -d /tmp/selftest_snap.XXXXXX)
trap 'rm -rf "$SELFTEST_SNAP"' EXIT
rsync -a --exclude .git /repo/ "$SELFTEST_SNAP/repo/"
mkdir -p "$SELFTEST_SNAP/verif"
rsync -a --exclude .git --exclude engine --exclude seeded --exclude evidence --exclude replays /verif/ "$SELFTEST_SNAP/verif/"
# jobs: "<patch> <prop> <label>" per line, run in SELFTEST_LANES parallel lanes (default 2: each check
# already races three solvers per obligation on all cores; more lanes risk solver timeouts)
jobs=$(mktemp /tmp/selftest_jobs.XXXXXX)
for p in selftest/mutants/*.patch; do
  prop=$(basename "$p" | cut -d- -f1)
  echo "$p $prop $(basename "$p" .patch)" >> "$jobs"
done
if [ "${1:-}" != "--no-seeded" ]; then
  for d in seeded/*/; do
    id=$(basename "$d"); prop=${id%-*}
    jq -e --arg p "$prop" '.checks[] | select(.property_id==$p)' MANIFEST.json >/dev/null || { echo "UNCLAIMED $id ($prop not claimed)"; continue; }
    echo "${d}patch.diff $prop seeded/$id" >> "$jobs"
  done
fi
res=$(mktemp /tmp/selftest_res.XXXXXX)
xargs -P "${SELFTEST_LANES:-2}" -L 1 tools/selftest_one.sh < "$jobs" | tee "$res"
total=$(wc -l < "$jobs"); killed=$(grep -c "^KILLED" "$res")
rm -f "$jobs" "$res"
echo "selftest: $killed/$total killed"
