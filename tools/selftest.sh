#!/bin/bash
# Must-fail corpus: every patch under selftest/mutants (named <Cxx>-<what>.patch) and every
# confirmed seeded change under seeded/<Cxx>-<V>/patch.diff is applied to a scratch copy of
# /repo and the property's check must report a VIOLATION. Prints one line per mutant.
cd /verif
# work on a snapshot of /repo and of the checker, so that edits made while this runs do not matter
export SELFTEST_SNAP=$(mktemp -d /tmp/selftest_snap.XXXXXX)
trap 'rm -rf "$SELFTEST_SNAP"' EXIT
rsync -a --exclude .git /repo/ "$SELFTEST_SNAP/repo/"
mkdir -p "$SELFTEST_SNAP/verif"
rsync -a --exclude .git --exclude engine --exclude seeded --exclude evidence --exclude replays /verif/ "$SELFTEST_SNAP/verif/"
killed=0; total=0
run() { # patch prop label
  total=$((total+1))
  out=$(tools/trymut.sh "$1" "$2" 2>&1)
  if echo "$out" | grep -q "^VIOLATION"; then
    killed=$((killed+1)); repro="no-input"
    echo "$out" | grep "^VIOLATION" | grep -qv "no-failing-input-found" && repro="input-found"
    echo "KILLED  $3 ($2) $repro: $(echo "$out" | grep "^VIOLATION" | head -1 | sed 's/.*obligation=//' | cut -c1-90)"
  elif echo "$out" | grep -q "^ERROR"; then
    echo "ERROR   $3 ($2): $(echo "$out" | grep "^ERROR" | head -1 | cut -c1-120)"
  else
    echo "MISSED  $3 ($2)"
  fi
}
for p in selftest/mutants/*.patch; do
  prop=$(basename "$p" | cut -d- -f1)
  run "$p" "$prop" "$(basename "$p" .patch)"
done
if [ "${1:-}" != "--no-seeded" ]; then
  for d in seeded/*/; do
    id=$(basename "$d"); prop=${id%-*}
    jq -e --arg p "$prop" '.checks[] | select(.property_id==$p)' MANIFEST.json >/dev/null || { echo "UNCLAIMED $id ($prop not claimed)"; continue; }
    run "$d/patch.diff" "$prop" "seeded/$id"
  done
fi
echo "selftest: $killed/$total killed"
