#!/usr/bin/env python3
"""Regenerates /verif/MANIFEST.json from the table below (keeps it schema-valid)."""
import json, subprocess, sys

NA = {
 'C01': 'needs an independent formal semantics of HCL+cty as oracle; no per-function contract within reach states "the value the specification assigns" (DESIGN.md section 6)',
 'C03': 'a relation between two independent parsers and the decoder over every spec; no function has that relation as its postcondition (DESIGN.md section 6)',
 'C16': 'the inverse law runs through reflect-driven field walking (outside the verifiable subset), the generator, the scanner and the parser (DESIGN.md section 6)',
 'C05': 'a two-run relation (abstract vs every concrete evaluation) over all of expression evaluation and go-cty refinements; the only contract-sized kernel (the short-circuit closures) are anonymous package-level function literals with no stable name to attach a contract to (DESIGN.md sections 1, 10.2)',
 'C11': 'generate -> print -> scan -> parse -> evaluate round trip: the escaper and the Ragel-generated literal decoder need sequence-valued specifications outside this engine, the rest is a cross-function relation; the label read-back clause is decided under C12 (unit U8, findings F7a/F7b) (DESIGN.md sections 1, 10.2)',
 'C20': 'parser-vs-parser and printer-vs-parser relations; the only per-function fact is an identity that carries no risk (DESIGN.md section 6)',
}

# property -> (claim text, level_note, design_ref, technique)
CLAIMS = json.load(open('/verif/tools/claims.json'))

props = [json.loads(l) for l in open('/verif/properties.jsonl')]
hooks_commits = subprocess.run(['git','-C','/repo','log','--format=%H %s'],capture_output=True,text=True).stdout.splitlines()
src_commits = [l.split()[0] for l in hooks_commits if ' verif:' in l]
checks = []
na = []
for p in props:
    pid = p['id']
    if pid in CLAIMS:
        c = CLAIMS[pid]
        checks.append({
            'property_id': pid,
            'quick_cmd': f'bin/hclverif check {pid} --tier quick',
            'thorough_cmd': f'bin/hclverif check {pid} --tier thorough',
            'evidence_file': f'/verif/evidence/{pid}.json',
            'replay_cmd_template': 'bin/hclverif replay {path}',
            'engine': 'hclverif',
            'level_claimed': {'category': 'proof', 'text': c['text'], 'design_ref': c.get('design_ref', 'DESIGN.md section 6')},
            'level_note': c['note'],
            'technique': c.get('technique', 'contract-based deductive verification: VCs generated from go/ssa of the real functions, discharged by z3/cvc5'),
        })
    else:
        na.append({'property_id': pid, 'reason': NA.get(pid, 'no check claimed yet: the verification unit for this property has not been brought to zero alarms (DESIGN.md section 8)')})
m = {
 'version': 1,
 'setup_cmd': 'cd /verif/engine && GOFLAGS=-mod=vendor GOPROXY=off GOTOOLCHAIN=auto go build -o /verif/bin/hclverif . && mkdir -p /verif/evidence /verif/replays',
 'hooks': {
   'guard': 'verif',
   'enable': 'contracts are comment-only files <pkg>/verif_contracts.go with //go:build verif; the engine loads /repo with -tags verif',
   'baseline_off_cmd': "cd /repo && GOFLAGS=-mod=mod GOPROXY=off go test -json -vet=off -count=1 -timeout 25m ./...",
   'source_commits': src_commits,
   'add_only': True,
 },
 'engines': [{'name': 'hclverif', 'path': '/verif/engine', 'serves_properties': sorted(CLAIMS.keys()),
              'kind_free_text': 'self-written verification-condition generator over go/ssa (x/tools v0.29.0, vendored): contracts as //@ comments, loop invariants, frames, modular calls; one SMT-LIB query per obligation raced on z3 5.1.0 / z3 4.8.12 / cvc5 1.0.3; replay through go test -overlay'}],
 'checks': checks,
 'notes': 'Every claimed property is a PARTIAL claim: the lemmas named in level_claimed.text are proved for all inputs; the remainder named in level_note is not. See DESIGN.md sections 1 and 6.',
 'not_applicable': na,
}
json.dump(m, open('/verif/MANIFEST.json','w'), indent=1)
print('MANIFEST.json:', len(checks), 'checks,', len(na), 'not applicable')
