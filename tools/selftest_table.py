#!/usr/bin/env python3
"""Rewrites the must-fail corpus table in DESIGN.md from selftest/last_run.txt
(between the markers <!-- SELFTEST-TABLE --> and <!-- /SELFTEST-TABLE -->)."""
import re, json, os
rows = []
prov = ''
for line in open('/verif/selftest/last_run.txt'):
    line = line.rstrip('\n')
    if line.startswith('# run:'):
        prov = line[len('# run:'):].strip()
        continue
    m = re.match(r'(KILLED|MISSED|UNCLAIMED|ERROR)\s+(\S+) \((\S+?)[ )](.*)', line)
    if not m:
        if line.startswith('selftest:'):
            summary = line
        continue
    status, name, prop, rest = m.groups()
    what = ''
    if name.startswith('seeded/'):
        mf = '/verif/' + name + '/meta.json'
        if os.path.exists(mf):
            what = json.load(open(mf)).get('summary', '')[:110].replace('|', '/').replace('\n', ' ')
    obl = ''
    mm = re.search(r'(input-found|no-input): (\S+)', rest)
    if mm and mm.group(2) == 'VIOLATION':
        obl = 'bounded stand-in (failing input reported)'
    elif mm:
        obl = '`' + mm.group(2) + '`' + (' (failing input replayed on the real code)' if mm.group(1) == 'input-found' else ' (no-failing-input-found)')
    rows.append((name, prop, status, obl, prov, what))
out = ['| change | property | result | first failing obligation | run | what the change does |', '|---|---|---|---|---|---|']
for r in rows:
    out.append('| %s | %s | %s | %s | %s | %s |' % r)
out.append('')
out.append(summary if 'summary' in dir() else '')
p = '/verif/DESIGN.md'
s = open(p).read()
block = '<!-- SELFTEST-TABLE -->\n' + '\n'.join(out) + '\n<!-- /SELFTEST-TABLE -->'
if '<!-- SELFTEST-TABLE -->' in s:
    s = re.sub(r'<!-- SELFTEST-TABLE -->.*?<!-- /SELFTEST-TABLE -->', lambda m: block, s, flags=re.S)
else:
    s = s.replace('SELFTEST-TABLE-PLACEHOLDER', block)
open(p, 'w').write(s)
print('table with', len(rows), 'rows written')
