#!/bin/bash
# usage: selftest_one.sh <patch> <prop> <label>   (SELFTEST_SNAP is inherited) - prints one result line
cd /verif
out=$(tools/trymut.sh "$1" "$2" 2>&1)
if echo "$out" | grep -q "^VIOLATION"; then
  repro="no-input"
  echo "$out" | grep "^VIOLATION" | grep -qv "no-failing-input-found" && repro="input-found"
  echo "KILLED  $3 ($2) $repro: $(echo "$out" | grep "^VIOLATION" | head -1 | sed 's/.*obligation=//' | cut -c1-90)"
elif echo "$out" | grep -q "^ERROR"; then
  echo "ERROR   $3 ($2): $(echo "$out" | grep "^ERROR" | head -1 | cut -c1-120)"
else
  echo "MISSED  $3 ($2)"
fi
