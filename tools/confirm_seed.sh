#!/bin/bash
# usage: confirm_seed.sh <Cxx> <A|B|C>
# Confirms a seeded change from /tmp/mut/<Cxx>/out/<V> in a scratch worktree of /repo's
# HEAD: (1) patch applies, (2) the whole suite still passes with it, (3) the demo fails with it,
# (4) the demo passes without it. Copies patch.diff/demo/meta.json to /verif/seeded/<Cxx>-<V>/
# with the confirmation recorded. The worktree is removed afterwards.
set -u
id="$1"; v="$2"
src="/tmp/mut/$id/out/$v"
# round 2 (variant C and later): the agent's deliverables are directly under /tmp/mut2/<Cxx>/out
[ -f "$src/patch.diff" ] || src="/tmp/mut2/$id/out"
[ -f "$src/patch.diff" ] || src="/tmp/mut3/$id/out"
[ -f "$src/patch.diff" ] || src="/tmp/mut4/$id/out"
[ -f "$src/patch.diff" ] || src="/tmp/mut6/$id/out"
[ -f "$src/patch.diff" ] || src="/tmp/mut7/$id/out"
[ -f "$src/patch.diff" ] || src="/tmp/mut8/$id/out"
[ -f "$src/patch.diff" ] || { echo "no patch for $id $v"; exit 2; }
export GOFLAGS=-mod=mod GOPROXY=off
wt=$(mktemp -d /tmp/seedwt.XXXXXX); rmdir "$wt"
git -C /repo worktree add --detach "$wt" HEAD >/dev/null 2>&1 || { echo "worktree failed"; exit 2; }
cleanup() { git -C /repo worktree remove --force "$wt" >/dev/null 2>&1; rm -rf "$wt"; }
trap cleanup EXIT
cd "$wt"
pkgdir=$(python3 -c "import json;print(json.load(open('$src/meta.json')).get('demo_pkg_dir','').strip('./'))")
demo=$(ls "$src"/*_test.go 2>/dev/null | head -1)
[ -n "$demo" ] || { echo "no demo"; exit 2; }
tname=$(grep -o "func TestSeededDemo[A-Za-z0-9_]*" "$demo" | head -1 | sed 's/func //')
applies=false; suite=false; demofails=false; demopasses=false
if git apply --check "$src/patch.diff" 2>/dev/null; then applies=true; fi
race=""
grep -q -- "-race" "$src/meta.json" && race="-race"
if $applies; then
  git apply "$src/patch.diff"
  if go build ./... >/dev/null 2>&1 && go test -vet=off -count=1 ./... > "$wt/suite.log" 2>&1; then suite=true; fi
  cp "$demo" "$wt/$pkgdir/zz_seeded_demo_test.go"
  if go test $race -vet=off -count=1 -run "^${tname}\$" "./$pkgdir" > "$wt/demo_with.log" 2>&1; then demofails=false; else
    grep -q "^--- FAIL\|^FAIL\|panic:" "$wt/demo_with.log" && demofails=true
  fi
  rm -f "$wt/$pkgdir/zz_seeded_demo_test.go"
  git apply -R "$src/patch.diff"
fi
cp "$demo" "$wt/$pkgdir/zz_seeded_demo_test.go"
if go test $race -vet=off -count=1 -run "^${tname}\$" "./$pkgdir" > "$wt/demo_without.log" 2>&1; then demopasses=true; fi
rm -f "$wt/$pkgdir/zz_seeded_demo_test.go"
out="/verif/seeded/$id-$v"
mkdir -p "$out"
cp "$src/patch.diff" "$out/patch.diff"
cp "$demo" "$out/$(basename "$demo")"
python3 - "$src/meta.json" "$out/meta.json" "$applies" "$suite" "$demofails" "$demopasses" "$tname" "$pkgdir" "$race" <<'PY'
import json,sys
m=json.load(open(sys.argv[1]))
m['confirmed_by_main']={'patch_applies_to_repo_head':sys.argv[3]=='true','suite_passes_with_change':sys.argv[4]=='true','demo_fails_with_change':sys.argv[5]=='true','demo_passes_without_change':sys.argv[6]=='true',
 'ran':'git worktree of /repo HEAD; git apply patch.diff; go test -vet=off -count=1 ./... ; go test %s -run ^%s$ ./%s with the demo copied in as zz_seeded_demo_test.go, with and without the patch' % (sys.argv[9],sys.argv[7],sys.argv[8])}
json.dump(m,open(sys.argv[2],'w'),indent=1)
PY
echo "$id-$v applies=$applies suite=$suite demo_fails_with=$demofails demo_passes_without=$demopasses"
