#!/usr/bin/env python3
"""usage: firstunsat.py query.smt2  -- finds the first path-condition definition that is refutable
(debugging aid for vacuous proofs): tests (assert pc_k) for each pc_k in order."""
import re,subprocess,sys
lines=open(sys.argv[1]).read().split('\n')
body=[l for l in lines if not l.startswith('(assert |pc') and not l.startswith('(assert (not') and l!='(check-sat)' and not l.startswith('(assert false')]
pcs=[m.group(1) for l in lines for m in [re.match(r'\(define-fun (\|pc![0-9]+\|)',l)] if m]
def test(pc,t=3):
    open('/tmp/qq.smt2','w').write('\n'.join(body)+'\n(assert %s)\n(check-sat)\n'%pc)
    return subprocess.run(['z3','-T:%d'%t,'/tmp/qq.smt2'],capture_output=True,text=True).stdout.strip().split('\n')[0]
lo,hi=0,len(pcs)-1
if test(pcs[hi],10)!='unsat':
    print('last pc not refuted'); sys.exit()
while lo<hi:
    mid=(lo+hi)//2
    if test(pcs[mid])=='unsat': hi=mid
    else: lo=mid+1
print('first refutable:',pcs[lo])
for l in lines:
    if l.startswith('(define-fun %s'%pcs[lo]): print(l[:3000])
