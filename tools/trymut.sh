#!/bin/bash
# usage: trymut.sh <patch.diff> <property> [extra hclverif check args]
# Applies a patch to a scratch copy of /repo (outside /repo and /verif), runs the
# check against it, removes the copy. Exit status is the check's.
set -u
patch="$(realpath "$1")"; prop="$2"; shift 2
d=$(mktemp -d /tmp/hclmut.XXXXXX)
trap 'rm -rf "$d"' EXIT
rsync -a --exclude .git /repo/ "$d/"
( cd "$d" && patch -p1 -s < "$patch" ) || { echo "patch failed"; exit 3; }
/verif/bin/hclverif check "$prop" --repo "$d" --no-evidence "$@"
