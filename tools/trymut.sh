#!/bin/bash
# usage: trymut.sh <patch.diff> <property> [extra hclverif check args]
# Applies a patch to a scratch copy of /repo (outside /repo and /verif), runs the
# check against it, removes the copy. Exit status is the check's.
# SELFTEST_SNAP=<dir> (set by selftest.sh): use the snapshot <dir>/repo and <dir>/verif
# instead of the live /repo and /verif, so that work in progress does not disturb a long run.
set -u
patch="$(realpath "$1")"; prop="$2"; shift 2
src=/repo; verif=/verif
if [ -n "${SELFTEST_SNAP:-}" ]; then src="$SELFTEST_SNAP/repo"; verif="$SELFTEST_SNAP/verif"; fi
d=$(mktemp -d /tmp/hclmut.XXXXXX)
trap 'rm -rf "$d"' EXIT
rsync -a --exclude .git "$src/" "$d/"
( cd "$d" && patch -p1 -s < "$patch" ) || { echo "patch failed"; exit 3; }
"$verif/bin/hclverif" check "$prop" --repo "$d" --verif "$verif" --no-evidence "$@"
