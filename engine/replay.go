package main

import (
	"context"
	"regexp"
	"strconv"
	"encoding/json"
	"fmt"
	"os"
	"os/exec"
	"path/filepath"
	"strings"
	"time"
)

// Dynamic replay: for a function with a registered oracle, an in-package test
// (kept under /verif/replay, injected with `go test -overlay`, nothing is
// written to the repository) re-expresses the function's contract in Go and
// searches small inputs (and, when available, the solver's model) for a
// concrete failing input on the real code.

type replayEntry struct {
	Pkg  string `json:"pkg"`  // package dir relative to the repo, e.g. "json"
	File string `json:"file"` // test file under /verif/replay
	Run  string `json:"run"`  // test name
}

type standinEntry struct {
	replayEntry
	For string `json:"for"`
}

type replayRegistry struct {
	Oracles  map[string]replayEntry    `json:"oracles"`
	Standins map[string][]standinEntry `json:"standins"`
}

func loadRegistry(verif string) replayRegistry {
	var reg replayRegistry
	data, err := os.ReadFile(filepath.Join(verif, "replay", "registry.json"))
	if err == nil {
		json.Unmarshal(data, &reg)
	}
	if reg.Oracles == nil {
		reg.Oracles = map[string]replayEntry{}
	}
	return reg
}

func loadReplayRegistry(verif string) map[string]replayEntry {
	return loadRegistry(verif).Oracles
}

type replayOutcome struct {
	out      string
	ok, ran  bool
}

var replayCache = map[string]replayOutcome{}

// known findings of the property being checked (set by cmdCheck): a dynamic oracle
// that only fails on inputs they identify has not reproduced the obligation at hand
var replayKnown []KnownFinding
var replayProp string

func runDynamicReplay(eng *Engine, verif string, v OblResult, seed int) (string, bool, bool) {
	reg := loadReplayRegistry(verif)
	e, ok := lookupOracle(reg, v.O.Func)
	if !ok {
		return "", false, false
	}
	if c, ok := replayCache[e.Run]; ok {
		return c.out, c.ok, c.ran
	}
	out, rep, ran := runReplayTest(eng.repoDir, verif, e, seed, v.O.Name)
	if rep && len(replayKnown) > 0 {
		// failing inputs that are recorded known findings do not reproduce anything new
		if _, unmatched := matchKnownInputs(out, replayProp, replayKnown); unmatched == 0 {
			rep = false
		}
	}
	out = shortOutput(out)
	replayCache[e.Run] = replayOutcome{out, rep, ran}
	return out, rep, ran
}

var standinRe = regexp.MustCompile(`STANDIN inputs=(\d+) bound="([^"]*)"`)

// runStandins executes the bounded stand-ins registered for a property. They
// are labelled bounded in the evidence and never counted as proved.
func runStandins(repoDir, verif, prop, tier string, seed int, known []KnownFinding) (records []map[string]interface{}, failures []string, knownHits []KnownFinding) {
	records = []map[string]interface{}{}
	for _, s := range loadRegistry(verif).Standins[prop] {
		os.Setenv("VERIF_TIER", tier)
		t0 := time.Now()
		out, failed, ran := runReplayTest(repoDir, verif, s.replayEntry, seed, "")
		rec := map[string]interface{}{"function": s.For, "test": s.Run, "label": "bounded", "seconds": round2(time.Since(t0).Seconds())}
		if m := standinRe.FindStringSubmatch(out); m != nil {
			n, _ := strconv.Atoi(m[1])
			rec["inputs"] = n
			rec["bound"] = m[2]
		}
		ok := ran && !failed && strings.Contains(out, "ok  ")
		if !ok && ran && failed {
			// every reported failing input that a known-findings entry identifies
			// (input=<regexp>) is a known finding; anything else is a violation
			hits, unmatched := matchKnownInputs(out, prop, known)
			if unmatched == 0 && len(hits) > 0 {
				ok = true
				rec["known_findings"] = len(hits)
				knownHits = append(knownHits, hits...)
			}
		}
		// A run that ended without reporting a failing input because the harness could not be
		// built or ran out of time decides nothing: it is recorded as inconclusive (and printed),
		// never reported as a violation - a violation needs a failing input or a failed obligation.
		if !ok && !strings.Contains(out, "REPLAY-FAIL") && !strings.Contains(out, "\npanic: ") || (!ok && strings.Contains(out, "panic: test timed out") && !strings.Contains(out, "REPLAY-FAIL")) {
			reason := "no verdict"
			switch {
			case strings.Contains(out, "test timed out"):
				reason = "the bounded exploration did not finish within its time limit"
			case strings.Contains(out, "[build failed]"):
				reason = "the oracle could not be built against the current tree"
			}
			if reason != "no verdict" {
				rec["passed"] = false
				rec["inconclusive"] = reason
				records = append(records, rec)
				fmt.Printf("NOTE bounded stand-in %s is inconclusive: %s\n", s.Run, reason)
				continue
			}
		}
		rec["passed"] = ok
		records = append(records, rec)
		if !ok {
			failures = append(failures, s.Run+": "+shortOutput(out))
		}
	}
	return
}

var replayFailRe = regexp.MustCompile(`REPLAY-FAIL [^\n]*`)
var replayInputRe = regexp.MustCompile(`input=("(?:[^"\\]|\\.)*")`)

func matchKnownInputs(out, prop string, known []KnownFinding) (hits []KnownFinding, unmatched int) {
	seen := map[string]bool{}
	for _, line := range replayFailRe.FindAllString(out, -1) {
		m := replayInputRe.FindStringSubmatch(line)
		matched := false
		if m != nil {
			if in, err := strconv.Unquote(m[1]); err == nil {
				for _, k := range known {
					if k.Status != "open" || k.Property != prop || k.Input == "" {
						continue
					}
					if re, err := regexp.Compile(k.Input); err == nil && re.MatchString(in) {
						matched = true
						if !seen[k.Text] {
							seen[k.Text] = true
							hits = append(hits, k)
						}
						break
					}
				}
			}
		}
		if !matched {
			unmatched++
		}
	}
	return
}

func runReplayTest(repoDir, verif string, e replayEntry, seed int, obligation string) (string, bool, bool) {
	src := filepath.Join(verif, "replay", e.File)
	if _, err := os.Stat(src); err != nil {
		return "replay source missing: " + src, false, false
	}
	// the injected file's name is derived from the oracle's own file name: cmd/go's package
	// index is keyed by (name, size, mtime) of a directory's entries, and after a fresh
	// restore all oracle files share one mtime - two oracles of equal size injected under
	// one name were then confused with each other ("could not import os")
	dst := filepath.Join(repoDir, e.Pkg, "zz_verif_"+strings.TrimSuffix(e.File, "_test.go")+"_test.go")
	ov := map[string]map[string]string{"Replace": {dst: src}}
	ovData, _ := json.Marshal(ov)
	ovFile := scratchFile(".overlay.json")
	os.WriteFile(ovFile, ovData, 0o644)
	defer os.Remove(ovFile)
	ctx, cancel := context.WithTimeout(context.Background(), 330*time.Second)
	defer cancel()
	cmd := exec.CommandContext(ctx, "go", "test", "-overlay", ovFile, "-vet=off", "-count=1", "-v", "-timeout", "300s", "-run", "^"+e.Run+"$", "./"+e.Pkg)
	cmd.Dir = repoDir
	cmd.Env = append(os.Environ(), "GOFLAGS=-mod=mod", "GOPROXY=off", fmt.Sprintf("VERIF_SEED=%d", seed), "VERIF_OBLIGATION="+obligation)
	out, err := cmd.CombinedOutput()
	// the full output is returned: known findings are matched against every reported failing input
	// (a truncated last line would count as an unknown failure); callers shorten what they store
	text := string(out)
	if len(text) > 16<<20 {
		text = text[:16<<20] + "…"
	}
	reproduced := err != nil && strings.Contains(text, "REPLAY-FAIL")
	return text, reproduced, true
}

// shortOutput shortens a test output for storage in replay and evidence files (whole lines).
func shortOutput(text string) string {
	if len(text) <= 8000 {
		return text
	}
	cut := strings.LastIndex(text[:8000], "\n")
	if cut < 0 {
		cut = 8000
	}
	return text[:cut] + "\n… (" + fmt.Sprint(len(text)-cut) + " more bytes of output not stored)"
}

// lookupOracle finds the oracle registered for a function (exact name, or a
// "prefix*" entry).
func lookupOracle(reg map[string]replayEntry, fn string) (replayEntry, bool) {
	if e, ok := reg[fn]; ok {
		return e, true
	}
	best := ""
	for k := range reg {
		if strings.HasSuffix(k, "*") && strings.HasPrefix(fn, strings.TrimSuffix(k, "*")) && len(k) > len(best) {
			best = k
		}
	}
	if best != "" {
		return reg[best], true
	}
	return replayEntry{}, false
}

func cmdReplay(args []string) int {
	if len(args) < 1 {
		fmt.Fprintln(os.Stderr, "usage: hclverif replay <replay.json>")
		return 2
	}
	data, err := os.ReadFile(args[0])
	if err != nil {
		fmt.Println("ERROR", err)
		return 2
	}
	var rec map[string]interface{}
	if err := json.Unmarshal(data, &rec); err != nil {
		fmt.Println("ERROR", err)
		return 2
	}
	obl, _ := rec["obligation"].(string)
	fn := obl
	if i := strings.Index(obl, "#"); i >= 0 {
		fn = obl[:i]
	}
	reg := loadReplayRegistry("/verif")
	e, ok := lookupOracle(reg, fn)
	fmt.Printf("obligation: %s\nwhere: %v\nwhat: %v\nsolver: %v (%v)\n", obl, rec["where"], rec["what"], rec["solver_status"], rec["solver"])
	if !ok {
		fmt.Println("no dynamic oracle registered for", fn, "- see solver_output in the replay file")
		return 1
	}
	out, reproduced, _ := runReplayTest("/repo", "/verif", e, 0, obl)
	fmt.Println(shortOutput(out))
	if reproduced {
		fmt.Println("reproduced on the real code")
		return 1
	}
	fmt.Println("not reproduced on the current tree")
	return 0
}
