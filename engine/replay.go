package main

import (
	"context"
	"encoding/json"
	"fmt"
	"os"
	"os/exec"
	"path/filepath"
	"strings"
	"time"
)

// Dynamic replay: for a function with a registered oracle, an in-package test
// (kept under /verif/replay, injected with `go test -overlay`, nothing is
// written to the repository) re-expresses the function's contract in Go and
// searches small inputs (and, when available, the solver's model) for a
// concrete failing input on the real code.

type replayEntry struct {
	Pkg  string `json:"pkg"`  // package dir relative to the repo, e.g. "json"
	File string `json:"file"` // test file under /verif/replay
	Run  string `json:"run"`  // test name
}

func loadReplayRegistry(verif string) map[string]replayEntry {
	out := map[string]replayEntry{}
	data, err := os.ReadFile(filepath.Join(verif, "replay", "registry.json"))
	if err != nil {
		return out
	}
	json.Unmarshal(data, &out)
	return out
}

func runDynamicReplay(eng *Engine, verif string, v OblResult, seed int) (string, bool, bool) {
	reg := loadReplayRegistry(verif)
	e, ok := reg[v.O.Func]
	if !ok {
		return "", false, false
	}
	return runReplayTest(eng.repoDir, verif, e, seed, v.O.Name)
}

func runReplayTest(repoDir, verif string, e replayEntry, seed int, obligation string) (string, bool, bool) {
	src := filepath.Join(verif, "replay", e.File)
	if _, err := os.Stat(src); err != nil {
		return "replay source missing: " + src, false, false
	}
	dst := filepath.Join(repoDir, e.Pkg, "zz_verif_replay_test.go")
	ov := map[string]map[string]string{"Replace": {dst: src}}
	ovData, _ := json.Marshal(ov)
	ovFile := scratchFile(".overlay.json")
	os.WriteFile(ovFile, ovData, 0o644)
	defer os.Remove(ovFile)
	ctx, cancel := context.WithTimeout(context.Background(), 150*time.Second)
	defer cancel()
	cmd := exec.CommandContext(ctx, "go", "test", "-overlay", ovFile, "-vet=off", "-count=1", "-timeout", "120s", "-run", "^"+e.Run+"$", "./"+e.Pkg)
	cmd.Dir = repoDir
	cmd.Env = append(os.Environ(), "GOFLAGS=-mod=mod", "GOPROXY=off", fmt.Sprintf("VERIF_SEED=%d", seed), "VERIF_OBLIGATION="+obligation)
	out, err := cmd.CombinedOutput()
	text := string(out)
	if len(text) > 8000 {
		text = text[:8000] + "…"
	}
	reproduced := err != nil && strings.Contains(text, "REPLAY-FAIL")
	return text, reproduced, true
}

func cmdReplay(args []string) int {
	if len(args) < 1 {
		fmt.Fprintln(os.Stderr, "usage: hclverif replay <replay.json>")
		return 2
	}
	data, err := os.ReadFile(args[0])
	if err != nil {
		fmt.Println("ERROR", err)
		return 2
	}
	var rec map[string]interface{}
	if err := json.Unmarshal(data, &rec); err != nil {
		fmt.Println("ERROR", err)
		return 2
	}
	obl, _ := rec["obligation"].(string)
	fn := obl
	if i := strings.Index(obl, "#"); i >= 0 {
		fn = obl[:i]
	}
	reg := loadReplayRegistry("/verif")
	e, ok := reg[fn]
	fmt.Printf("obligation: %s\nwhere: %v\nwhat: %v\nsolver: %v (%v)\n", obl, rec["where"], rec["what"], rec["solver_status"], rec["solver"])
	if !ok {
		fmt.Println("no dynamic oracle registered for", fn, "- see solver_output in the replay file")
		return 1
	}
	out, reproduced, _ := runReplayTest("/repo", "/verif", e, 0, obl)
	fmt.Println(out)
	if reproduced {
		fmt.Println("reproduced on the real code")
		return 1
	}
	fmt.Println("not reproduced on the current tree")
	return 0
}
