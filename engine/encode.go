package main

// Verification-condition generation for one SSA function.

import (
	"fmt"
	"go/constant"
	"go/token"
	"go/types"
	"sort"
	"strings"

	"golang.org/x/tools/go/ssa"
)

type Obligation struct {
	Name   string
	Kind   string
	Func   string
	Prefix int    // number of script lines that precede the obligation
	PC     string // path condition
	Goal   string
	Pos    string
	Descr  string
	Expect string // "unsat" (proof) or "sat" (vacuity probe)
	fe     *FuncEnc
}

type storeRec struct {
	hv, addr, pc string
}

type loopInfo struct {
	header  *ssa.BasicBlock
	blocks  map[*ssa.BasicBlock]bool
	ordinal int
	backs   []*ssa.BasicBlock // predecessors along back edges
	frameVars map[string]bool
	preState  *State
}

func isHeapVarName(n string) bool {
	return strings.HasPrefix(n, "F:") || strings.HasPrefix(n, "M:") || strings.HasPrefix(n, "G:") || strings.HasPrefix(n, "MH:") || strings.HasPrefix(n, "MV:")
}

type FuncEnc struct {
	eng  *Engine
	fn   *ssa.Function
	c    *FuncContract
	sc   *Script
	vals map[ssa.Value]string
	tups map[ssa.Value][]string

	localAllocs map[*ssa.Alloc]bool
	heapSorts   map[string]string
	epochMemo   map[string]string
	epochN      int

	obls       []*Obligation
	oblCount   map[string]int
	havocs     []string
	notes      []string
	storeLog   []storeRec
	recording  bool
	curBlock   *ssa.BasicBlock
	blockWrites map[*ssa.BasicBlock]map[string]bool

	entry     *State
	params    map[string]EV
	blockOut  map[*ssa.BasicBlock]*State
	edgeState map[[2]int]*State // (pred index, succ index) -> state on the edge
	loops     map[*ssa.BasicBlock]*loopInfo
	loopMeasure map[*ssa.BasicBlock]string
	debugRefs []*ssa.DebugRef
	defers    []*ssa.Defer
	deferFlag map[*ssa.Defer]string
	inlineDepth int
	retStates []*State

	knownNonNil  map[string]bool
	closures     map[string]*ssa.MakeClosure
	rangeOf      map[string]*ssa.Range
	deferArgs    map[*ssa.Defer][]string
	usedAssumed  map[string]bool
	closureBind  map[string]EV
	inlineParent *FuncEnc
	inlineName   string
	trivial      int
	relevant     map[string]bool
	axioms       []axiomLine
	frameLocs    []assignLoc
	ghostSorts   map[string]string
	blockTargets map[*ssa.BasicBlock]map[string][]ssa.Value
	curTarget    ssa.Value
	loadTop      string
	loadAddr     string
	verTop       map[string]string
	guardedVals  map[string]string
	deferKey     map[*ssa.Defer]string
	blockReach   map[*ssa.BasicBlock][]*reachInfo
	knownVars    map[string]string
}

func (fe *FuncEnc) sorts() *Sorts { return fe.eng.sorts }

func (fe *FuncEnc) pos(p token.Pos) string {
	if !p.IsValid() {
		return ""
	}
	ps := fe.eng.fset.Position(p)
	return fmt.Sprintf("%s:%d", relPath(ps.Filename), ps.Line)
}

func relPath(f string) string {
	return strings.TrimPrefix(f, "/repo/")
}

// splitAnd returns the conjuncts of a top-level (and ...) term, flattened.
func splitAnd(t string) []string {
	if !strings.HasPrefix(t, "(and ") || !strings.HasSuffix(t, ")") {
		return []string{t}
	}
	body := t[5 : len(t)-1]
	var parts []string
	depth, start := 0, 0
	inBar := false
	for i := 0; i < len(body); i++ {
		switch c := body[i]; {
		case c == '|':
			inBar = !inBar
		case inBar:
		case c == '(':
			depth++
		case c == ')':
			depth--
		case c == ' ' && depth == 0:
			if i > start {
				parts = append(parts, body[start:i])
			}
			start = i + 1
		}
	}
	if start < len(body) {
		parts = append(parts, body[start:])
	}
	var out []string
	for _, p := range parts {
		out = append(out, splitAnd(p)...)
	}
	return out
}

// oblige records a proof obligation; conjunctions are split into one
// obligation per conjunct (each later conjunct may use the earlier ones).
func (fe *FuncEnc) oblige(st *State, kind, label, goal string, pos token.Pos, descr string) {
	fe.oblige1(st, kind, label, goal, pos, descr)
}

func (fe *FuncEnc) oblige1(st *State, kind, label, goal string, pos token.Pos, descr string) {
	if c := fe.root().c; c != nil && c.NoSafety {
		switch kind {
		case "nil", "bounds", "assert", "div", "panic":
			// partial correctness: executions that panic here are not considered
			fe.assume(st, goal)
			return
		}
	}
	if c := fe.root().c; c != nil && c.NoSafetyKinds[kind] {
		fe.assume(st, goal)
		return
	}
	if c := fe.root().c; c != nil && kind == "pre" {
		for _, sub := range c.AssumePreOf {
			if strings.Contains(label, sub) {
				fe.assume(st, goal)
				return
			}
		}
	}
	if c := fe.root().c; c != nil && c.AssumePre && kind == "pre" {
		fe.assume(st, goal)
		return
	}
	if fe.recording || goal == "true" {
		if !fe.recording && goal == "true" {
			fe.trivial++
		}
		if fe.recording {
			return
		}
	}
	base := kind
	if label != "" {
		base = kind + "." + label
	}
	fe.oblCount[base]++
	name := base
	if n := fe.oblCount[base]; n > 1 || kind == "bounds" || kind == "nil" || kind == "panic" || kind == "assert" || kind == "div" {
		name = fmt.Sprintf("%s[%d]", base, n)
	}
	o := &Obligation{Name: fe.fnName() + "#" + name, Kind: kind, Func: fe.fnName(), Prefix: len(fe.sc.lines), PC: st.pc, Goal: goal, Pos: fe.pos(pos), Descr: descr, Expect: "unsat", fe: fe}
	fe.obls = append(fe.obls, o)
	// after an assertion, continue under the assumption that it holds
	if goal != "true" {
		fe.assume(st, goal)
	}
}

func (fe *FuncEnc) fnName() string {
	if fe.inlineName != "" {
		return fe.inlineName
	}
	return fe.fn.Pkg.Pkg.Name() + "." + fe.fn.RelString(fe.fn.Pkg.Pkg)
}

// ---------------------------------------------------------------------------

func (e *Engine) newFuncEnc(fn *ssa.Function, c *FuncContract) *FuncEnc {
	return &FuncEnc{eng: e, fn: fn, c: c}
}

func (fe *FuncEnc) reset() {
	fe.sc = newScript(fe.eng.sorts)
	if _, ok := fe.eng.cs.SpecFuncs["clean"]; ok {
		fe.sc.taint = true
		so := fe.eng.sorts
		so.extra("(declare-fun sf_clean (hv_Str) Bool)")
		so.extra("(assert (sf_clean hv_emptystr))")
		so.extra("(assert (forall ((a hv_Str) (b hv_Str)) (! (=> (and (sf_clean a) (sf_clean b)) (sf_clean (hv_strcat a b))) :pattern ((hv_strcat a b)))))")
		so.extra("(declare-fun hv_substr (hv_Str Int Int) hv_Str)")
		so.extra("(assert (forall ((s hv_Str) (l Int) (h Int)) (! (=> (sf_clean s) (sf_clean (hv_substr s l h))) :pattern ((sf_clean (hv_substr s l h))))))")
	}
	fe.vals = map[ssa.Value]string{}
	fe.tups = map[ssa.Value][]string{}
	fe.heapSorts = map[string]string{}
	fe.epochMemo = map[string]string{}
	fe.epochN = 0
	fe.obls = nil
	fe.oblCount = map[string]int{}
	fe.havocs = nil
	fe.storeLog = nil
	fe.blockOut = map[*ssa.BasicBlock]*State{}
	fe.edgeState = map[[2]int]*State{}
	fe.loopMeasure = map[*ssa.BasicBlock]string{}
	fe.deferFlag = map[*ssa.Defer]string{}
	fe.retStates = nil
	fe.trivial = 0
	fe.knownNonNil = map[string]bool{}
	fe.closures = map[string]*ssa.MakeClosure{}
	fe.rangeOf = map[string]*ssa.Range{}
	fe.deferArgs = map[*ssa.Defer][]string{}
	fe.usedAssumed = map[string]bool{}
	fe.defers = nil
	fe.notes = nil
	fe.axioms = nil
	fe.frameLocs = nil
	fe.ghostSorts = map[string]string{}
	fe.verTop = map[string]string{}
	fe.guardedVals = map[string]string{}
	fe.deferKey = map[*ssa.Defer]string{}
	fe.loadTop = ""
}

// Encode generates all obligations of the function.
func (fe *FuncEnc) Encode() (err error) {
	defer func() {
		if r := recover(); r != nil {
			if ee, ok := r.(encErr); ok {
				err = fmt.Errorf("%s: %s", fe.fnName(), string(ee))
				return
			}
			panic(r)
		}
	}()
	if len(fe.fn.Blocks) == 0 {
		return fmt.Errorf("%s has no body", fe.fnName())
	}
	fe.analyseLocals()
	fe.findLoops()
	fe.blockWrites = map[*ssa.BasicBlock]map[string]bool{}
	fe.blockTargets = map[*ssa.BasicBlock]map[string][]ssa.Value{}
	fe.blockReach = map[*ssa.BasicBlock][]*reachInfo{}
	fe.relevant = map[string]bool{}
	// pass 1: record which heap variables each block writes
	fe.recording = true
	fe.reset()
	fe.run()
	// pass 2: the real thing
	fe.recording = false
	fe.knownVars = fe.heapSorts
	fe.reset()
	fe.run()
	return nil
}

type encErr string

func (fe *FuncEnc) fail(format string, args ...interface{}) {
	panic(encErr(fmt.Sprintf(format, args...)))
}

// analyseLocals decides which Allocs are modelled as plain values: those
// whose address is only used for field/element selection, loads and stores.
func (fe *FuncEnc) analyseLocals() {
	fe.localAllocs = map[*ssa.Alloc]bool{}
	var onlyLocalUse func(v ssa.Value, root bool) bool
	onlyLocalUse = func(v ssa.Value, root bool) bool {
		refs := v.Referrers()
		if refs == nil {
			return false
		}
		for _, r := range *refs {
			switch r := r.(type) {
			case *ssa.DebugRef:
			case *ssa.UnOp:
				if r.Op != token.MUL {
					return false
				}
			case *ssa.Store:
				if r.Val == v {
					return false // the address itself is stored somewhere
				}
			case *ssa.FieldAddr:
				if !onlyLocalUse(r, false) {
					return false
				}
			case *ssa.IndexAddr:
				if r.X != v {
					return false
				}
				if _, isArr := v.Type().Underlying().(*types.Pointer).Elem().Underlying().(*types.Array); !isArr {
					return false
				}
				if !onlyLocalUse(r, false) {
					return false
				}
			default:
				return false
			}
		}
		return true
	}
	for _, b := range fe.fn.Blocks {
		for _, ins := range b.Instrs {
			if a, ok := ins.(*ssa.Alloc); ok {
				if onlyLocalUse(a, true) {
					fe.localAllocs[a] = true
				}
			}
			if d, ok := ins.(*ssa.DebugRef); ok {
				fe.debugRefs = append(fe.debugRefs, d)
			}
		}
	}
}

func (fe *FuncEnc) findLoops() {
	fe.loops = map[*ssa.BasicBlock]*loopInfo{}
	for _, b := range fe.fn.Blocks {
		for _, s := range b.Succs {
			if s.Dominates(b) { // back edge b -> s
				li := fe.loops[s]
				if li == nil {
					li = &loopInfo{header: s, blocks: map[*ssa.BasicBlock]bool{s: true}}
					fe.loops[s] = li
				}
				li.backs = append(li.backs, b)
				// natural loop: everything that reaches b without passing s
				var stack []*ssa.BasicBlock
				if !li.blocks[b] {
					li.blocks[b] = true
					stack = append(stack, b)
				}
				for len(stack) > 0 {
					x := stack[len(stack)-1]
					stack = stack[:len(stack)-1]
					for _, p := range x.Preds {
						if !li.blocks[p] {
							li.blocks[p] = true
							stack = append(stack, p)
						}
					}
				}
			}
		}
	}
	var hs []*ssa.BasicBlock
	for h := range fe.loops {
		hs = append(hs, h)
	}
	sort.Slice(hs, func(i, j int) bool { return hs[i].Index < hs[j].Index })
	for i, h := range hs {
		fe.loops[h].ordinal = i + 1
	}
	// an invariant given for a loop the function does not have would otherwise be ignored silently
	if fe.c != nil {
		for n := range fe.c.Loops {
			if n > len(hs) {
				fe.note("loop %d invariant ignored: the function has only %d loop(s) - the contract no longer matches the code", n, len(hs))
			}
		}
	}
}

// loopTargets returns the distinct SSA address values written in the loop for
// heap variable n when all writes are targeted at values defined before the
// loop; nil otherwise.
func (fe *FuncEnc) loopTargets(li *loopInfo, n string) []ssa.Value {
	var out []ssa.Value
	seen := map[ssa.Value]bool{}
	for blk := range li.blocks {
		for _, v := range fe.blockTargets[blk][n] {
			if v == nil {
				return nil
			}
			switch x := v.(type) {
			case *ssa.Parameter, *ssa.FreeVar, *ssa.Global:
			case ssa.Instruction:
				if li.blocks[x.Block()] || !x.Block().Dominates(li.header) {
					return nil
				}
			default:
				return nil
			}
			if !seen[v] {
				seen[v] = true
				out = append(out, v)
			}
		}
	}
	if len(out) == 0 || len(out) > 4 {
		return nil
	}
	sort.Slice(out, func(i, j int) bool { return out[i].Name() < out[j].Name() })
	return out
}

func (fe *FuncEnc) isBackEdge(from, to *ssa.BasicBlock) bool {
	return to.Dominates(from)
}

// order returns the blocks in reverse post-order ignoring back edges.
func (fe *FuncEnc) order() []*ssa.BasicBlock {
	seen := map[*ssa.BasicBlock]bool{}
	var post []*ssa.BasicBlock
	var dfs func(b *ssa.BasicBlock)
	dfs = func(b *ssa.BasicBlock) {
		seen[b] = true
		for _, s := range b.Succs {
			if !seen[s] && !fe.isBackEdge(b, s) {
				dfs(s)
			}
		}
		post = append(post, b)
	}
	dfs(fe.fn.Blocks[0])
	if fe.fn.Recover != nil && !seen[fe.fn.Recover] {
		// recover block: only reachable by panics; not modelled
	}
	for i, j := 0, len(post)-1; i < j; i, j = i+1, j-1 {
		post[i], post[j] = post[j], post[i]
	}
	return post
}

func (fe *FuncEnc) run() {
	fn := fe.fn
	st := &State{pc: "true", heap: map[string]string{}, locals: map[*ssa.Alloc]string{}, ghost: map[string]string{}, ep: fe.newEpoch()}
	st.allocTop = fe.sc.declareNamed("allocTop@0", sInt)
	st.ep.top = st.allocTop
	fe.assume(st, "(>= "+st.allocTop+" 0)")
	fe.assume(st, "(<= (hv_base hv_globals) "+st.allocTop+")")
	// parameters
	fe.params = map[string]EV{}
	for _, p := range fn.Params {
		t := fe.sc.declareNamed("param."+p.Name(), fe.sorts().sortOf(p.Type()))
		fe.vals[p] = t
		fe.params[p.Name()] = EV{T: t, Typ: p.Type()}
		fe.assume(st, fe.typeFacts(st, t, p.Type()))
	}
	for _, fv := range fn.FreeVars {
		t := fe.sc.declareNamed("freevar."+fv.Name(), fe.sorts().sortOf(fv.Type()))
		fe.vals[fv] = t
		fe.params[fv.Name()] = EV{T: t, Typ: fv.Type().Underlying().(*types.Pointer).Elem(), Addr: true}
		fe.assume(st, fe.typeFacts(st, t, fv.Type()))
		fe.assume(st, "(not (= "+t+" 0))")
	}
	fe.eng.emitAxioms(fe, st)
	// every heap variable the function is known to touch (from the recording pass)
	// exists from the start, so that frames of calls without a contract can keep it
	for _, n := range sortedKeys(fe.knownVars) {
		fe.heapGetQuiet(st, n, fe.knownVars[n])
	}
	fe.entry = st.clone()
	// preconditions
	if fe.c != nil {
		env := fe.envAt(st, nil)
		for _, r := range fe.c.Requires {
			fe.assume(st, fe.evalBool(env, r.Expr, r.Where))
		}
		if recv := fn.Signature.Recv(); recv != nil && len(fn.Params) > 0 {
			if _, isPtr := recv.Type().Underlying().(*types.Pointer); isPtr && !fe.c.NoNilRecv {
				fe.assume(st, "(not (= "+fe.vals[fn.Params[0]]+" 0))")
			}
		}
	}
	fe.entry.pc = st.pc
	if !fe.recording {
		// vacuity probe: the preconditions must be satisfiable
		fe.obls = append(fe.obls, &Obligation{Name: fe.fnName() + "#vacuity.requires", Kind: "vacuity", Func: fe.fnName(), Prefix: len(fe.sc.lines), PC: st.pc, Goal: "false", Expect: "sat", fe: fe, Descr: "preconditions are satisfiable"})
	}

	order := fe.order()
	for _, b := range order {
		var in *State
		if b.Index == 0 {
			in = st
		} else {
			var ins []*State
			for _, p := range b.Preds {
				if fe.isBackEdge(p, b) {
					continue
				}
				if es := fe.edgeState[[2]int{p.Index, b.Index}]; es != nil {
					ins = append(ins, es)
				}
			}
			if len(ins) == 0 {
				continue // unreachable
			}
			if li := fe.loops[b]; li != nil {
				in = fe.enterLoop(li, ins)
			} else {
				in = fe.merge(ins)
				fe.definePhis(b, in)
			}
		}
		fe.curBlock = b
		fe.block(b, in)
	}
	fe.curBlock = nil
}

// typeFacts returns facts that hold for every value of type t.
// factTop is the allocation bound used for "this pointer refers to an allocated
// object" facts: for a value just loaded from a heap-variable version, the
// allocation top at the time that version was created (pointers stored in it
// cannot be younger); otherwise the current top.
func (fe *FuncEnc) factTop(st *State) string {
	return st.allocTop
}

// versionFact: a pointer found in a cell that already existed when the heap
// version it was read from was created is no younger than that version. (Cells
// of objects allocated later hold unconstrained junk in that version: a callee
// that allocates does not produce a new version of the variables it only
// initialises.)
func (fe *FuncEnc) versionFact(term string, t types.Type) string {
	if fe.loadTop == "" || fe.loadAddr == "" {
		return "true"
	}
	var target string
	switch t.Underlying().(type) {
	case *types.Pointer, *types.Map:
		target = term
	case *types.Slice:
		target = "(hv_org " + term + ")"
	default:
		return "true"
	}
	return fmt.Sprintf("(=> (<= (hv_base %s) %s) (<= (hv_base %s) %s))", fe.loadAddr, fe.loadTop, target, fe.loadTop)
}

func (fe *FuncEnc) typeFacts(st *State, term string, t types.Type) string {
	switch u := t.Underlying().(type) {
	case *types.Basic:
		if u.Info()&types.IsUnsigned != 0 {
			bits := map[types.BasicKind]int{types.Uint8: 8, types.Uint16: 16, types.Uint32: 32}
			if n, ok := bits[u.Kind()]; ok {
				return fmt.Sprintf("(and (<= 0 %s) (< %s %d))", term, term, int64(1)<<uint(n))
			}
			return fmt.Sprintf("(<= 0 %s)", term)
		}
		switch u.Kind() {
		case types.Int8:
			return fmt.Sprintf("(and (<= (- 128) %s) (< %s 128))", term, term)
		case types.Int16:
			return fmt.Sprintf("(and (<= (- 32768) %s) (< %s 32768))", term, term)
		case types.Int32:
			return fmt.Sprintf("(and (<= (- 2147483648) %s) (< %s 2147483648))", term, term)
		}
	case *types.Pointer:
		f := fmt.Sprintf("(and (<= 0 (hv_base %s)) (<= (hv_base %s) %s) (=> (not (= %s 0)) (< 0 (hv_base %s))))", term, term, fe.factTop(st), term, term)
		if _, isStruct := u.Elem().Underlying().(*types.Struct); isStruct {
			if _, named := u.Elem().(*types.Named); named {
				// a non-nil *T refers to an object of dynamic type T
				f = and(f, fmt.Sprintf("(=> (not (= %s 0)) (= (hv_rtype %s) %d))", term, term, fe.sorts().typeID(u.Elem())))
			}
		}
		return f
	case *types.Map:
		return fmt.Sprintf("(and (<= 0 (hv_base %s)) (<= (hv_base %s) %s) (=> (not (= %s 0)) (< 0 (hv_base %s))))", term, term, fe.factTop(st), term, term)
	case *types.Slice:
		return fmt.Sprintf("(and (<= 0 (hv_offs (hv_org %s))) (<= 0 (hv_len %s)) (<= (hv_len %s) (hv_cap %s)) (<= 0 (hv_base (hv_org %s))) (<= (hv_base (hv_org %s)) %s) (=> (= (hv_org %s) 0) (= (hv_cap %s) 0)) (=> (not (= (hv_org %s) 0)) (< 0 (hv_base (hv_org %s)))))", term, term, term, term, term, term, fe.factTop(st), term, term, term, term)
	case *types.Interface:
		return fmt.Sprintf("(and (<= 0 (hv_tag %s)) (=> (= (hv_tag %s) 0) (= (hv_val %s) 0)))", term, term, term)
	case *types.Struct:
		info := fe.sorts().infoOf(t)
		var fs []string
		for _, f := range info.fields {
			fs = append(fs, fe.typeFacts(st, fmt.Sprintf("(|%s| %s)", f.accessor, term), f.typ))
		}
		return and(fs...)
	}
	return "true"
}

func (fe *FuncEnc) definePhis(b *ssa.BasicBlock, in *State) {
	for _, ins := range b.Instrs {
		phi, ok := ins.(*ssa.Phi)
		if !ok {
			break
		}
		var terms, conds []string
		for i, p := range b.Preds {
			es := fe.edgeState[[2]int{p.Index, b.Index}]
			if es == nil || fe.isBackEdge(p, b) {
				continue
			}
			terms = append(terms, fe.val(phi.Edges[i]))
			conds = append(conds, es.pc)
		}
		if len(terms) == 0 {
			fe.vals[phi] = fe.sc.declare(phi.Name(), fe.sorts().sortOf(phi.Type()))
			continue
		}
		acc := terms[len(terms)-1]
		for i := len(terms) - 2; i >= 0; i-- {
			acc = ite(conds[i], terms[i], acc)
		}
		fe.vals[phi] = fe.sc.define(fe.valName(phi), fe.sorts().sortOf(phi.Type()), acc)
	}
}

func (fe *FuncEnc) valName(v ssa.Value) string {
	return v.Name()
}

// tryInv evaluates a loop-invariant clause. A clause that no longer binds to
// the code (a local it names has disappeared) is dropped with a NOTE: the
// obligations that depended on it then fail to discharge and are reported,
// instead of the whole check stopping with an error.
func (fe *FuncEnc) tryInv(env *Env, cl Clause, asInt bool) (t string, ok bool) {
	defer func() {
		if r := recover(); r != nil {
			if ee, isEnc := r.(encErr); isEnc {
				if !cl.FromLoopAll {
					fe.note("loop invariant dropped, it no longer binds to the code: %s", string(ee))
				}
				t, ok = "", false
				return
			}
			panic(r)
		}
	}()
	if asInt {
		return fe.evalInt(env, cl.Expr, cl.Where), true
	}
	return fe.evalBool(env, cl.Expr, cl.Where), true
}

// enterLoop cuts the loop at its header: invariants are asserted on entry,
// everything the loop may modify is havocked, invariants are assumed.
func (fe *FuncEnc) enterLoop(li *loopInfo, ins []*State) *State {
	b := li.header
	pre := fe.merge(ins)
	spec := fe.loopSpec(li)
	// values of the header phis on entry
	entryVals := map[*ssa.Phi]string{}
	var phis []*ssa.Phi
	for _, insn := range b.Instrs {
		phi, ok := insn.(*ssa.Phi)
		if !ok {
			break
		}
		phis = append(phis, phi)
		var terms, conds []string
		for i, p := range b.Preds {
			es := fe.edgeState[[2]int{p.Index, b.Index}]
			if es == nil || fe.isBackEdge(p, b) {
				continue
			}
			terms = append(terms, fe.val(phi.Edges[i]))
			conds = append(conds, es.pc)
		}
		acc := terms[len(terms)-1]
		for i := len(terms) - 2; i >= 0; i-- {
			acc = ite(conds[i], terms[i], acc)
		}
		entryVals[phi] = fe.sc.define(phi.Name()+".entry", fe.sorts().sortOf(phi.Type()), acc)
	}
	li.preState = pre
	if spec != nil {
		env := fe.envAt(pre, b)
		env.loopPre = pre
		env.phiOverride = entryVals
		for _, inv := range spec.Invs {
			if t, ok := fe.tryInv(env, inv, false); ok {
				fe.oblige(pre, fmt.Sprintf("inv%d", li.ordinal), inv.Label+".entry", t, b.Instrs[0].Pos(), "loop invariant holds on entry: "+inv.Src)
			}
		}
	}
	// havoc
	st := pre.clone()
	for _, phi := range phis {
		t := fe.sc.declare(phi.Name(), fe.sorts().sortOf(phi.Type()))
		fe.vals[phi] = t
		fe.assume(st, fe.typeFacts(st, t, phi.Type()))
	}
	all := false
	written := map[string]bool{}
	for blk := range li.blocks {
		for n := range fe.blockWrites[blk] {
			if n == "*" {
				all = true
			}
			written[n] = true
		}
	}
	if all {
		st.heap = map[string]string{}
		st.ep = fe.newEpoch()
		fe.noteWrite("*")
	} else if written["*unknown"] {
		// the loop calls code without a contract that can only reach some types:
		// forget what it can reach (and everything not yet in use), keep the rest
		var reaches []*reachInfo
		for blk := range li.blocks {
			reaches = append(reaches, fe.blockReach[blk]...)
		}
		gr := fe.eng.globalReach()
		keep := map[string]string{}
		for hv, t := range st.heap {
			aff := written[hv] || gr.affected(hv)
			for _, r := range reaches {
				if r.affected(hv) {
					aff = true
				}
			}
			if !aff {
				keep[hv] = t
			}
		}
		st.heap = keep
		st.ep = fe.newEpoch()
		fe.noteWrite("*unknown")
		for _, r := range reaches {
			fe.blockReach[b] = append(fe.blockReach[b], r)
		}
	} else {
		for _, n := range sortedKeys(written) {
			if strings.HasPrefix(n, "local:") || strings.HasPrefix(n, "ghost:") {
				continue
			}
			srt := fe.heapSorts[n]
			if srt == "" {
				continue
			}
			// targeted havoc: every write to this variable in the loop goes to a
			// cell whose address is computed before the loop
			if tg := fe.loopTargets(li, n); tg != nil {
				cur := fe.heapGetQuiet(st, n, srt)
				inner := arrayElemSort(srt)
				for _, v := range tg {
					cell := fe.sc.declare(n+".cell", inner)
					cur = fmt.Sprintf("(store %s %s %s)", cur, fe.val(v), cell)
				}
				st.heap[n] = fe.sc.define(n, srt, cur)
				fe.noteWrite(n)
				continue
			}
			st.heap[n] = fe.sc.declare(n, srt)
			fe.noteWrite(n)
		}
	}
	for a := range st.locals {
		if written["local:"+a.Name()] {
			et := a.Type().Underlying().(*types.Pointer).Elem()
			t := fe.sc.declare("local."+a.Comment, fe.sorts().sortOf(et))
			st.locals[a] = t
			fe.assume(st, fe.typeFacts(st, t, et))
		}
	}
	for g := range st.ghost {
		if written["ghost:"+g] {
			srt := fe.ghostSorts[g]
			if srt == "" {
				srt = sInt
			}
			st.ghost[g] = fe.sc.declare("ghost."+g, srt)
		}
	}
	fe.bumpAllocTop(st)
	// derived invariants (valid by construction, assumed without obligations):
	// a counter that starts at v and is only ever incremented by a non-negative
	// constant stays >= v.
	for _, phi := range phis {
		if !isInt(phi.Type()) {
			continue
		}
		mono := true
		for i, p := range b.Preds {
			if !fe.isBackEdge(p, b) {
				continue
			}
			bo, ok := phi.Edges[i].(*ssa.BinOp)
			if !ok || bo.Op != token.ADD {
				mono = false
				break
			}
			c, isC := bo.Y.(*ssa.Const)
			if bo.X != ssa.Value(phi) || !isC || c.Value == nil || constant.Sign(c.Value) < 0 {
				mono = false
				break
			}
		}
		if mono {
			fe.assume(st, fmt.Sprintf("(>= %s %s)", fe.vals[phi], entryVals[phi]))
		}
	}
	// loop frame: cells outside the function's assigns clause keep their entry values
	if fe.c != nil && fe.c.HasAssigns && !fe.c.FrameAssumed && !all {
		for _, n := range sortedKeys(written) {
			if !isHeapVarName(n) || fe.heapSorts[n] == "" {
				continue
			}
			if f := fe.frameFormula(n, fe.heapGet(pre, n, fe.heapSorts[n])); f != "" {
				fe.oblige(pre, fmt.Sprintf("loopframe%d", li.ordinal), n+".entry", f, b.Instrs[0].Pos(), "loop frame holds on entry for "+n)
			}
			if f := fe.frameFormula(n, st.heap[n]); f != "" {
				fe.assume(st, f)
			}
		}
		li.frameVars = written
	}
	if spec != nil {
		env := fe.envAt(st, b)
		env.loopPre = pre
		for _, inv := range spec.Invs {
			if t, ok := fe.tryInv(env, inv, false); ok {
				fe.assume(st, t)
			}
		}
		if spec.Decreases != nil {
			if m, ok := fe.tryInv(env, *spec.Decreases, true); ok {
				fe.loopMeasure[b] = fe.sc.define("measure", sInt, m)
			}
		}
	}
	return st
}

// backEdge checks invariant preservation and termination measure.
// loopSpec returns the invariants of a loop: its own plus the function's loopall clauses.
func (fe *FuncEnc) loopSpec(li *loopInfo) *LoopSpec {
	if fe.c == nil {
		return nil
	}
	spec := fe.c.Loops[li.ordinal]
	if len(fe.c.LoopAll) == 0 {
		return spec
	}
	merged := &LoopSpec{}
	if spec != nil {
		merged.Invs = append(merged.Invs, spec.Invs...)
		merged.Decreases = spec.Decreases
	}
	for _, cl := range fe.c.LoopAll {
		cl.FromLoopAll = true // applies wherever it binds; not binding at some loop is expected
		merged.Invs = append(merged.Invs, cl)
	}
	return merged
}

func (fe *FuncEnc) backEdge(li *loopInfo, from *ssa.BasicBlock, st *State) {
	spec := fe.loopSpec(li)
	b := li.header
	{
		pos := from.Instrs[len(from.Instrs)-1].Pos()
		if !pos.IsValid() {
			pos = b.Instrs[0].Pos()
		}
		for _, n := range sortedKeys(li.frameVars) {
			if !isHeapVarName(n) || fe.heapSorts[n] == "" {
				continue
			}
			if f := fe.frameFormula(n, fe.heapGet(st, n, fe.heapSorts[n])); f != "" {
				fe.oblige(st, fmt.Sprintf("loopframe%d", li.ordinal), n+".preserved", f, pos, "loop frame is preserved for "+n)
			}
		}
	}
	if spec == nil {
		return
	}
	over := map[*ssa.Phi]string{}
	for _, insn := range b.Instrs {
		phi, ok := insn.(*ssa.Phi)
		if !ok {
			break
		}
		for i, p := range b.Preds {
			if p == from {
				over[phi] = fe.val(phi.Edges[i])
			}
		}
	}
	env := fe.envAt(st, b)
	env.phiOverride = over
	env.loopPre = li.preState
	pos := from.Instrs[len(from.Instrs)-1].Pos()
	if !pos.IsValid() {
		pos = b.Instrs[0].Pos()
	}
	for _, inv := range spec.Invs {
		if t, ok := fe.tryInv(env, inv, false); ok {
			fe.oblige(st, fmt.Sprintf("inv%d", li.ordinal), inv.Label+".preserved", t, pos, "loop invariant is preserved: "+inv.Src)
		}
	}
	if spec.Decreases != nil {
		if m, ok := fe.tryInv(env, *spec.Decreases, true); ok {
			if m0 := fe.loopMeasure[b]; m0 != "" {
				fe.oblige(st, fmt.Sprintf("decr%d", li.ordinal), "", fmt.Sprintf("(and (< %s %s) (>= %s 0))", m, m0, m0), pos, "loop measure decreases and is bounded: "+spec.Decreases.Src)
			}
		}
	}
}

func (fe *FuncEnc) block(b *ssa.BasicBlock, st *State) {
	for _, ins := range b.Instrs {
		fe.instr(ins, st)
	}
	fe.blockOut[b] = st
	// outgoing edges
	switch t := b.Instrs[len(b.Instrs)-1].(type) {
	case *ssa.If:
		c := fe.val(t.Cond)
		for i, s := range b.Succs {
			es := st.clone()
			if i == 0 {
				fe.assume(es, c)
			} else {
				fe.assume(es, not(c))
			}
			fe.flow(b, s, es)
		}
	case *ssa.Jump:
		fe.flow(b, b.Succs[0], st.clone())
	}
}

func (fe *FuncEnc) flow(from, to *ssa.BasicBlock, st *State) {
	if fe.isBackEdge(from, to) {
		fe.curBlock = from
		fe.backEdge(fe.loops[to], from, st)
		return
	}
	// two edges between the same pair of blocks (if with identical targets)
	key := [2]int{from.Index, to.Index}
	if prev := fe.edgeState[key]; prev != nil {
		st = fe.merge([]*State{prev, st})
	}
	fe.edgeState[key] = st
}

// val returns the SMT term of an SSA value.
func (fe *FuncEnc) val(v ssa.Value) string {
	if t, ok := fe.vals[v]; ok {
		return t
	}
	switch v := v.(type) {
	case *ssa.Const:
		return fe.constTerm(v)
	case *ssa.Function:
		return fmt.Sprintf("%d", fe.eng.funcID(v))
	case *ssa.Global:
		t := fe.sc.declareNamed("global."+v.Pkg.Pkg.Name()+"."+v.Name(), sInt)
		fe.vals[v] = t
		fe.knownNonNil[t] = true
		return t
	case *ssa.Builtin:
		return "0"
	}
	// value defined in a block that was not processed (unreachable) or an
	// address-only instruction: give it an unconstrained term
	t := fe.sc.declare("undef."+v.Name(), fe.sorts().sortOf(v.Type()))
	fe.vals[v] = t
	return t
}

func (fe *FuncEnc) constTerm(c *ssa.Const) string {
	t := c.Type()
	if c.Value == nil {
		return fe.sorts().zero(t)
	}
	switch c.Value.Kind() {
	case constant.Bool:
		if constant.BoolVal(c.Value) {
			return "true"
		}
		return "false"
	case constant.String:
		s := constant.StringVal(c.Value)
		if s == "" {
			return "hv_emptystr"
		}
		return fe.sc.strLit(s)
	case constant.Int:
		if b, ok := t.Underlying().(*types.Basic); ok && b.Info()&types.IsFloat != 0 {
			return fe.floatConst(c.Value.ExactString())
		}
		s := c.Value.ExactString()
		if strings.HasPrefix(s, "-") {
			return "(- " + s[1:] + ")"
		}
		return s
	case constant.Float, constant.Complex:
		return fe.floatConst(c.Value.ExactString())
	}
	return "0"
}

func (fe *FuncEnc) floatConst(s string) string {
	return fe.sc.declareNamed("floatconst."+s, sInt)
}
