package main

import (
	"bytes"
	"context"
	"fmt"
	"os"
	"os/exec"
	"path/filepath"
	"strings"
	"sync"
	"time"
)

type SolveResult struct {
	Status  string // unsat, sat, unknown, timeout, error
	Solver  string
	Seconds float64
	Output  string
	Agree   []string // other solvers that returned the same definitive status (thorough)
}

type solverSpec struct {
	name string
	cmd  func(file string, timeoutS int, seed int) []string
	prep func(q string) string
}

var solvers = []solverSpec{
	{"z3-5.1.0", func(f string, t, seed int) []string {
		return []string{"z3-new", fmt.Sprintf("-T:%d", t), fmt.Sprintf("smt.random_seed=%d", seed), fmt.Sprintf("sat.random_seed=%d", seed), f}
	}, func(q string) string { return q }},
	{"z3-4.8.12", func(f string, t, seed int) []string {
		return []string{"z3", fmt.Sprintf("-T:%d", t), fmt.Sprintf("smt.random_seed=%d", seed), f}
	}, func(q string) string { return q }},
	{"cvc5-1.0.3", func(f string, t, seed int) []string {
		return []string{"cvc5", "--incremental", fmt.Sprintf("--tlimit=%d", t*1000), fmt.Sprintf("--seed=%d", seed), f}
	}, func(q string) string { return "(set-option :produce-models true)\n(set-logic ALL)\n" + q }},
}

var tmpDir string
var tmpOnce sync.Once
var tmpN int
var tmpMu sync.Mutex

func scratchFile(ext string) string {
	tmpOnce.Do(func() {
		d, err := os.MkdirTemp("", "hclverif-")
		if err != nil {
			panic(err)
		}
		tmpDir = d
	})
	tmpMu.Lock()
	tmpN++
	n := tmpN
	tmpMu.Unlock()
	return filepath.Join(tmpDir, fmt.Sprintf("q%d%s", n, ext))
}

func cleanupScratch() {
	if tmpDir != "" && os.Getenv("VERIF_KEEP_QUERIES") == "" {
		os.RemoveAll(tmpDir)
	}
}

func runSolver(ctx context.Context, s solverSpec, query string, timeoutS, seed int) SolveResult {
	f := scratchFile(".smt2")
	os.WriteFile(f, []byte(s.prep(query)), 0o644)
	if os.Getenv("VERIF_KEEP_QUERIES") == "" {
		defer os.Remove(f)
	}
	args := s.cmd(f, timeoutS, seed)
	cctx, cancel := context.WithTimeout(ctx, time.Duration(timeoutS+2)*time.Second)
	defer cancel()
	cmd := exec.CommandContext(cctx, args[0], args[1:]...)
	var out bytes.Buffer
	cmd.Stdout = &out
	cmd.Stderr = &out
	t0 := time.Now()
	cmd.Run()
	el := time.Since(t0).Seconds()
	text := out.String()
	status := "unknown"
	for _, line := range strings.Split(text, "\n") {
		line = strings.TrimSpace(line)
		switch line {
		case "unsat", "sat", "unknown", "timeout":
			status = line
		default:
			if strings.HasPrefix(line, "(error") {
				status = "error"
			} else {
				continue
			}
		}
		break
	}
	if ctx.Err() != nil && status == "unknown" {
		status = "cancelled"
	} else if cctx.Err() != nil && status == "unknown" {
		status = "timeout"
	}
	if len(text) > 6000 {
		text = text[:6000] + "…"
	}
	return SolveResult{Status: status, Solver: s.name, Seconds: el, Output: text}
}

// solve races the back ends on one query; the first definitive answer wins.
// With crossCheck, every back end is run to completion and agreement recorded.
func solve(query string, timeoutS, seed int, crossCheck bool) SolveResult {
	t0 := time.Now()
	// stage 1: the fast path
	if !crossCheck {
		quick := 2
		if timeoutS < quick {
			quick = timeoutS
		}
		r := runSolver(context.Background(), solvers[0], query, quick, seed)
		if r.Status == "unsat" || r.Status == "sat" {
			return r
		}
	}
	ctx, cancel := context.WithCancel(context.Background())
	defer cancel()
	ch := make(chan SolveResult, len(solvers))
	for _, s := range solvers {
		s := s
		go func() { ch <- runSolver(ctx, s, query, timeoutS, seed) }()
	}
	var first *SolveResult
	var all []SolveResult
	for range solvers {
		r := <-ch
		all = append(all, r)
		if r.Status == "unsat" || r.Status == "sat" {
			if first == nil {
				rr := r
				first = &rr
				if !crossCheck {
					cancel()
					break
				}
			} else if r.Status == first.Status {
				first.Agree = append(first.Agree, r.Solver)
			} else {
				// back ends disagree: report as error, never as proof
				return SolveResult{Status: "error", Solver: "disagreement", Seconds: time.Since(t0).Seconds(), Output: fmt.Sprintf("%s says %s, %s says %s", first.Solver, first.Status, r.Solver, r.Status)}
			}
		}
	}
	if first != nil {
		first.Seconds = time.Since(t0).Seconds()
		return *first
	}
	// nobody decided
	var outs []string
	status := "unknown"
	for _, r := range all {
		outs = append(outs, r.Solver+": "+r.Status)
		if r.Status == "timeout" {
			status = "timeout"
		}
	}
	errOut := ""
	for _, r := range all {
		if r.Status == "error" {
			errOut += "\n" + r.Solver + ": " + r.Output
		}
	}
	return SolveResult{Status: status, Solver: "none", Seconds: time.Since(t0).Seconds(), Output: strings.Join(outs, "; ") + errOut}
}

// getModel re-runs a satisfiable query on z3 asking for values of the given terms.
func getModel(query string, terms []string, timeoutS int) string {
	if len(terms) == 0 {
		return ""
	}
	q := strings.Replace(query, "(check-sat)", "(check-sat)\n(get-value ("+strings.Join(terms, " ")+"))", 1)
	r := runSolver(context.Background(), solvers[0], "(set-option :model.completion true)\n"+q, timeoutS, 0)
	if r.Status != "sat" {
		r = runSolver(context.Background(), solvers[1], q, timeoutS, 0)
	}
	if r.Status != "sat" {
		return ""
	}
	i := strings.Index(r.Output, "sat")
	return strings.TrimSpace(r.Output[i+3:])
}
