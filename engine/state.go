package main

// Symbolic state and the memory model (see DESIGN.md Appendix A).
//
//  * value-modelled locals: non-escaping Allocs are plain SMT terms;
//  * heap: Burstall field arrays per (struct type, leaf field), per-type
//    arrays M:<T> for scalar pointees / slice elements, sub-object addresses
//    hv_sub(p,K) for nested struct values, hv_elem(arr,i) for elements;
//  * maps: two arrays per map type (presence, value) indexed by map ref;
//  * allocation: a bump counter; fresh refs are above it, everything that
//    existed before is at or below it.

import (
	"fmt"
	"os"
	"go/types"
	"strings"

	"golang.org/x/tools/go/ssa"
)

type Epoch struct {
	id   int
	srcs []epochSrc
	top  string // allocation top when the epoch began
}

type epochSrc struct {
	cond string
	ep   *Epoch
}

type State struct {
	pc       string
	heap     map[string]string
	ep       *Epoch
	locals   map[*ssa.Alloc]string
	allocTop string
	ghost    map[string]string
}

func (st *State) clone() *State {
	n := &State{pc: st.pc, ep: st.ep, allocTop: st.allocTop, heap: make(map[string]string, len(st.heap)), locals: make(map[*ssa.Alloc]string, len(st.locals)), ghost: make(map[string]string, len(st.ghost))}
	for k, v := range st.heap {
		n.heap[k] = v
	}
	for k, v := range st.locals {
		n.locals[k] = v
	}
	for k, v := range st.ghost {
		n.ghost[k] = v
	}
	return n
}

// heap variable access -------------------------------------------------------

func (fe *FuncEnc) heapGet(st *State, name, srt string) string {
	if fe.recording {
		fe.relevant[name] = true
	}
	return fe.heapGetQuiet(st, name, srt)
}

// heapGetQuiet reads a heap variable without marking it as relevant (bulk operations).
func (fe *FuncEnc) heapGetQuiet(st *State, name, srt string) string {
	if t, ok := st.heap[name]; ok {
		return t
	}
	fe.heapSorts[name] = srt
	t := fe.epochVar(name, srt, st.ep)
	st.heap[name] = t
	return t
}

func (fe *FuncEnc) epochVar(name, srt string, ep *Epoch) string {
	key := fmt.Sprintf("%s@%d", name, ep.id)
	if t, ok := fe.epochMemo[key]; ok {
		return t
	}
	var t string
	if len(ep.srcs) == 0 {
		t = fe.sc.declareNamed(key, srt)
		if ep.top != "" {
			fe.verTop[t] = ep.top
		}
	} else {
		// merged epoch: ite over the source epochs
		terms := make([]string, len(ep.srcs))
		for i, s := range ep.srcs {
			terms[i] = fe.epochVar(name, srt, s.ep)
		}
		// a fresh constant tied to the source versions by guarded equations:
		// keeps heap terms atomic (usable in quantifier patterns)
		t = fe.sc.declare(key, srt)
		for i := range terms {
			c := ep.srcs[i].cond
			if i == len(terms)-1 {
				var others []string
				for _, s := range ep.srcs[:i] {
					others = append(others, s.cond)
				}
				c = not(or(others...))
			}
			fe.sc.assertFor(t, implies(c, eq(t, terms[i])))
		}
	}
	fe.epochMemo[key] = t
	return t
}

func (fe *FuncEnc) heapSet(st *State, name, srt, term string) {
	fe.heapSorts[name] = srt
	fe.noteWrite(name)
	st.heap[name] = fe.sc.define(name, srt, term)
	fe.verTop[st.heap[name]] = st.allocTop
}

func (fe *FuncEnc) noteWrite(name string) {
	if fe.curBlock != nil {
		m := fe.blockWrites[fe.curBlock]
		if m == nil {
			m = map[string]bool{}
			fe.blockWrites[fe.curBlock] = m
		}
		m[name] = true
		// targeted write (a single cell whose address is an SSA value) or not
		t := fe.blockTargets[fe.curBlock]
		if t == nil {
			t = map[string][]ssa.Value{}
			fe.blockTargets[fe.curBlock] = t
		}
		if fe.curTarget != nil {
			t[name] = append(t[name], fe.curTarget)
		} else {
			t[name] = append(t[name], nil)
		}
	}
}

func (fe *FuncEnc) newEpoch() *Epoch {
	fe.epochN++
	return &Epoch{id: fe.epochN}
}

// havocAll forgets the whole heap (call to code without a contract).
func (fe *FuncEnc) havocAll(st *State, why string) {
	fe.noteWrite("*")
	st.heap = map[string]string{}
	st.ep = fe.newEpoch()
	fe.bumpAllocTop(st)
	st.ep.top = st.allocTop
	fe.havocs = append(fe.havocs, why)
}

// havocReachable forgets the heap variables that code reaching only the given
// types (plus the repository's package-level variables) could write; the
// variables already in use that it cannot reach keep their value.
func (fe *FuncEnc) havocReachable(st *State, why string, roots []types.Type) {
	ri := fe.eng.reachOf(roots)
	gr := fe.eng.globalReach()
	if ri.any || gr.any {
		fe.havocAll(st, why)
		return
	}
	keep := map[string]string{}
	for hv, t := range st.heap {
		if !ri.affected(hv) && !gr.affected(hv) {
			keep[hv] = t
		} else if os.Getenv("VERIF_DEBUG_REACH") != "" && !fe.recording {
			fmt.Fprintf(os.Stderr, "REACH %s: %s affected (args=%v globals=%v)\n", why, hv, ri.affected(hv), gr.affected(hv))
		}
	}
	for hv := range st.heap {
		if _, k := keep[hv]; !k {
			fe.noteWrite(hv)
		}
	}
	fe.noteWrite("*unknown")
	if fe.curBlock != nil {
		fe.blockReach[fe.curBlock] = append(fe.blockReach[fe.curBlock], ri)
	}
	st.heap = keep
	st.ep = fe.newEpoch()
	fe.bumpAllocTop(st)
	st.ep.top = st.allocTop
	fe.havocs = append(fe.havocs, why+" (type-reachable heap only)")
}

func (fe *FuncEnc) bumpAllocTop(st *State) {
	nt := fe.sc.declare("allocTop", sInt)
	st.pc = fe.definePC(and(st.pc, fmt.Sprintf("(>= %s %s)", nt, st.allocTop)))
	st.allocTop = nt
}

func (fe *FuncEnc) definePC(t string) string {
	return fe.sc.define("pc", sBool, t)
}

func (fe *FuncEnc) assume(st *State, t string) {
	if t == "true" {
		return
	}
	st.pc = fe.definePC(and(st.pc, t))
}

// merge joins the states flowing into a block along the given edges.
func (fe *FuncEnc) merge(sts []*State) *State {
	if len(sts) == 1 {
		return sts[0].clone()
	}
	res := &State{heap: map[string]string{}, locals: map[*ssa.Alloc]string{}, ghost: map[string]string{}}
	var pcs []string
	for _, s := range sts {
		pcs = append(pcs, s.pc)
	}
	res.pc = fe.definePC(or(pcs...))
	pick := func(terms []string, srt, name string) string {
		same := true
		for _, t := range terms[1:] {
			if t != terms[0] {
				same = false
			}
		}
		if same {
			return terms[0]
		}
		acc := terms[len(terms)-1]
		for i := len(terms) - 2; i >= 0; i-- {
			acc = ite(sts[i].pc, terms[i], acc)
		}
		return fe.sc.define(name, srt, acc)
	}
	// allocTop
	var ats []string
	for _, s := range sts {
		ats = append(ats, s.allocTop)
	}
	res.allocTop = pick(ats, sInt, "allocTop")
	// epoch
	sameEp := true
	for _, s := range sts[1:] {
		if s.ep != sts[0].ep {
			sameEp = false
		}
	}
	if sameEp {
		res.ep = sts[0].ep
	} else {
		ep := fe.newEpoch()
		for i, s := range sts {
			c := s.pc
			if i == len(sts)-1 {
				c = "true"
			}
			ep.srcs = append(ep.srcs, epochSrc{c, s.ep})
		}
		res.ep = ep
	}
	// heap
	names := map[string]bool{}
	for _, s := range sts {
		for n := range s.heap {
			names[n] = true
		}
	}
	for _, n := range sortedKeys(names) {
		srt := fe.heapSorts[n]
		var ts []string
		same := true
		for _, s := range sts {
			ts = append(ts, fe.heapGetQuiet(s, n, srt))
			if ts[len(ts)-1] != ts[0] {
				same = false
			}
		}
		if same {
			res.heap[n] = ts[0]
			continue
		}
		// fresh constant + guarded equations (keeps heap terms atomic for patterns)
		h := fe.sc.declare(n, srt)
		for i, s := range sts {
			fe.sc.assertFor(h, implies(s.pc, eq(h, ts[i])))
		}
		res.heap[n] = h
	}
	// locals
	allocs := map[*ssa.Alloc]bool{}
	var order []*ssa.Alloc
	for _, s := range sts {
		for a := range s.locals {
			if !allocs[a] {
				allocs[a] = true
				order = append(order, a)
			}
		}
	}
	// deterministic order
	sortAllocs(order)
	for _, a := range order {
		et := a.Type().Underlying().(*types.Pointer).Elem()
		srt := fe.sorts().sortOf(et)
		var ts []string
		for _, s := range sts {
			if t, ok := s.locals[a]; ok {
				ts = append(ts, t)
			} else {
				ts = append(ts, fe.sorts().zero(et))
			}
		}
		res.locals[a] = pick(ts, srt, "local."+a.Comment)
	}
	// ghost
	gn := map[string]bool{}
	for _, s := range sts {
		for n := range s.ghost {
			gn[n] = true
		}
	}
	for _, n := range sortedKeys(gn) {
		var ts []string
		srt := fe.ghostSorts[n]
		if srt == "" {
			srt = sInt
		}
		missing := false
		for _, s := range sts {
			t, ok := s.ghost[n]
			if !ok && strings.HasPrefix(n, "defer:") {
				t, ok = "false", true // the defer statement was not executed on that path
			}
			if !ok {
				missing = true
			}
			ts = append(ts, t)
		}
		if missing {
			continue // not defined on every incoming path: out of scope here
		}
		res.ghost[n] = pick(ts, srt, "ghost."+n)
	}
	return res
}

func sortAllocs(as []*ssa.Alloc) {
	for i := 1; i < len(as); i++ {
		for j := i; j > 0 && allocLess(as[j], as[j-1]); j-- {
			as[j], as[j-1] = as[j-1], as[j]
		}
	}
}

func allocLess(a, b *ssa.Alloc) bool {
	if a.Block().Index != b.Block().Index {
		return a.Block().Index < b.Block().Index
	}
	return a.Name() < b.Name()
}

// memory layout --------------------------------------------------------------

type leafCell struct {
	varName string
	sort    string
	typ     types.Type
	addr    func(p string) string // address of the cell given the address of the enclosing object
}

func (e *Engine) subTag(structName string, field int) int {
	k := fmt.Sprintf("%s#%d", structName, field)
	if t, ok := e.subTags[k]; ok {
		return t
	}
	t := len(e.subTags) + 1
	e.subTags[k] = t
	return t
}

func typeLabel(t types.Type) string {
	return types.TypeString(t, func(p *types.Package) string { return p.Name() })
}

// fieldVar is the heap variable holding leaf field i of struct type t.
func (e *Engine) fieldVar(t types.Type, i int) string {
	st := t.Underlying().(*types.Struct)
	return "F:" + typeLabel(t) + "." + st.Field(i).Name()
}

func (e *Engine) memVar(t types.Type) string {
	// byte and uint8 (rune and int32) are one type: one memory
	if b, ok := t.(*types.Basic); ok && b.Kind() < types.UntypedBool {
		t = types.Typ[b.Kind()]
	}
	return "M:" + typeLabel(t)
}

// isStructVal reports whether t is an object-like struct: one that holds
// references (pointers, maps, interfaces, functions, channels) and is
// therefore stored field by field (Burstall). Plain-data structs (ints,
// bools, strings, slices and other plain-data structs) are value-like: they
// are stored as one datatype value per address.
func isStructVal(t types.Type) bool {
	_, ok := t.Underlying().(*types.Struct)
	return ok && !isValueLike(t)
}

var valueLikeMemo = map[string]bool{}

func isValueLike(t types.Type) bool {
	st, ok := t.Underlying().(*types.Struct)
	if !ok {
		return false
	}
	k := typeKey(t)
	if v, ok := valueLikeMemo[k]; ok {
		return v
	}
	valueLikeMemo[k] = false
	res := true
	for i := 0; i < st.NumFields(); i++ {
		switch u := st.Field(i).Type().Underlying().(type) {
		case *types.Basic, *types.Slice:
		case *types.Struct:
			if !isValueLike(st.Field(i).Type()) {
				res = false
			}
		case *types.Array:
			switch u.Elem().Underlying().(type) {
			case *types.Basic:
			default:
				res = false
			}
		default:
			res = false
		}
	}
	if st.NumFields() == 0 {
		res = true
	}
	valueLikeMemo[k] = res
	return res
}

func isArrayVal(t types.Type) bool {
	_, ok := t.Underlying().(*types.Array)
	return ok
}

// leafCells enumerates the memory cells that make up a value of type t
// stored at some address.
func (e *Engine) leafCells(t types.Type) []leafCell {
	var out []leafCell
	if u, ok := t.Underlying().(*types.Struct); ok && !isValueLike(t) {
		for i := 0; i < u.NumFields(); i++ {
			ft := u.Field(i).Type()
			if isStructVal(ft) {
				tag := e.subTag(typeLabel(t), i)
				for _, c := range e.leafCells(ft) {
					c := c
					inner := c.addr
					c.addr = func(p string) string { return inner(fmt.Sprintf("(hv_sub %s %d)", p, tag)) }
					out = append(out, c)
				}
				continue
			}
			out = append(out, leafCell{varName: e.fieldVar(t, i), sort: e.sorts.sortOf(ft), typ: ft, addr: func(p string) string { return p }})
		}
		return out
	}
	return []leafCell{{varName: e.memVar(t), sort: e.sorts.sortOf(t), typ: t, addr: func(p string) string { return p }}}
}

func arrSort(elem string) string { return "(Array Int " + elem + ")" }

// loadAt reads a value of type t stored at address p.
func (fe *FuncEnc) loadAt(st *State, p string, t types.Type) string {
	if u, ok := t.Underlying().(*types.Struct); ok && !isValueLike(t) {
		info := fe.sorts().infoOf(t)
		if u.NumFields() == 0 {
			return "|" + info.ctor + "|"
		}
		var parts []string
		for i := 0; i < u.NumFields(); i++ {
			ft := u.Field(i).Type()
			if isStructVal(ft) {
				parts = append(parts, fe.loadAt(st, fmt.Sprintf("(hv_sub %s %d)", p, fe.eng.subTag(typeLabel(t), i)), ft))
			} else {
				h := fe.heapGet(st, fe.eng.fieldVar(t, i), arrSort(fe.sorts().sortOf(ft)))
				parts = append(parts, fmt.Sprintf("(select %s %s)", h, p))
			}
		}
		return fmt.Sprintf("(|%s| %s)", info.ctor, strings.Join(parts, " "))
	}
	h := fe.heapGet(st, fe.eng.memVar(t), arrSort(fe.sorts().sortOf(t)))
	fe.loadTop, fe.loadAddr = fe.verTop[h], p
	return fmt.Sprintf("(select %s %s)", h, p)
}

// storeAt writes value v of type t at address p.
func (fe *FuncEnc) storeAt(st *State, p string, t types.Type, v string) {
	if u, ok := t.Underlying().(*types.Struct); ok && !isValueLike(t) {
		info := fe.sorts().infoOf(t)
		for i := 0; i < u.NumFields(); i++ {
			ft := u.Field(i).Type()
			fv := fmt.Sprintf("(|%s| %s)", info.fields[i].accessor, v)
			if isStructVal(ft) {
				fe.storeAt(st, fmt.Sprintf("(hv_sub %s %d)", p, fe.eng.subTag(typeLabel(t), i)), ft, fv)
			} else {
				fe.storeLeaf(st, fe.eng.fieldVar(t, i), fe.sorts().sortOf(ft), p, fv)
			}
		}
		return
	}
	fe.storeLeaf(st, fe.eng.memVar(t), fe.sorts().sortOf(t), p, v)
}

func (fe *FuncEnc) storeLeaf(st *State, hv, elemSort, p, v string) {
	as := arrSort(elemSort)
	h := fe.heapGet(st, hv, as)
	fe.heapSet(st, hv, as, fmt.Sprintf("(store %s %s %s)", h, p, v))
	fe.storeLog = append(fe.storeLog, storeRec{hv: hv, addr: p, pc: st.pc})
}

// loadField / storeField access one field of the struct at address p.
func (fe *FuncEnc) loadField(st *State, p string, t types.Type, i int) string {
	ft := t.Underlying().(*types.Struct).Field(i).Type()
	if isStructVal(ft) {
		return fe.loadAt(st, fmt.Sprintf("(hv_sub %s %d)", p, fe.eng.subTag(typeLabel(t), i)), ft)
	}
	h := fe.heapGet(st, fe.eng.fieldVar(t, i), arrSort(fe.sorts().sortOf(ft)))
	fe.loadTop, fe.loadAddr = fe.verTop[h], p
	return fmt.Sprintf("(select %s %s)", h, p)
}

func (fe *FuncEnc) storeField(st *State, p string, t types.Type, i int, v string) {
	ft := t.Underlying().(*types.Struct).Field(i).Type()
	if isStructVal(ft) {
		fe.storeAt(st, fmt.Sprintf("(hv_sub %s %d)", p, fe.eng.subTag(typeLabel(t), i)), ft, v)
		return
	}
	fe.storeLeaf(st, fe.eng.fieldVar(t, i), fe.sorts().sortOf(ft), p, v)
}

// functional update of a datatype value along a field path.
func (fe *FuncEnc) updatePath(t types.Type, cur string, path []pathElem, v string) string {
	if len(path) == 0 {
		return v
	}
	pe := path[0]
	if pe.index != "" {
		at := t.Underlying().(*types.Array)
		inner := fe.updatePath(at.Elem(), fmt.Sprintf("(select %s %s)", cur, pe.index), path[1:], v)
		return fmt.Sprintf("(store %s %s %s)", cur, pe.index, inner)
	}
	info := fe.sorts().infoOf(t)
	var parts []string
	for i, f := range info.fields {
		fv := fmt.Sprintf("(|%s| %s)", f.accessor, cur)
		if i == pe.field {
			fv = fe.updatePath(f.typ, fv, path[1:], v)
		}
		parts = append(parts, fv)
	}
	return fmt.Sprintf("(|%s| %s)", info.ctor, strings.Join(parts, " "))
}

func (fe *FuncEnc) projectPath(t types.Type, cur string, path []pathElem) (string, types.Type) {
	for _, pe := range path {
		if pe.index != "" {
			at := t.Underlying().(*types.Array)
			cur = fmt.Sprintf("(select %s %s)", cur, pe.index)
			t = at.Elem()
			continue
		}
		info := fe.sorts().infoOf(t)
		f := info.fields[pe.field]
		cur = fmt.Sprintf("(|%s| %s)", f.accessor, cur)
		t = f.typ
	}
	return cur, t
}

type pathElem struct {
	field int
	index string // non-empty: array index term
}

// map model -----------------------------------------------------------------

func (fe *FuncEnc) mapVars(mt *types.Map) (has, val, ksort, vsort string) {
	l := typeLabel(mt)
	return "MH:" + l, "MV:" + l, fe.sorts().sortOf(mt.Key()), fe.sorts().sortOf(mt.Elem())
}

func (fe *FuncEnc) mapHasArr(st *State, mt *types.Map, m string) string {
	has, _, ks, _ := fe.mapVars(mt)
	h := fe.heapGet(st, has, "(Array Int (Array "+ks+" Bool))")
	return fmt.Sprintf("(select %s %s)", h, m)
}

func (fe *FuncEnc) mapValArr(st *State, mt *types.Map, m string) string {
	_, val, ks, vs := fe.mapVars(mt)
	h := fe.heapGet(st, val, "(Array Int (Array "+ks+" "+vs+"))")
	return fmt.Sprintf("(select %s %s)", h, m)
}

func (fe *FuncEnc) mapStore(st *State, mt *types.Map, m, k, v string, present bool) {
	has, val, ks, vs := fe.mapVars(mt)
	hs := "(Array Int (Array " + ks + " Bool))"
	vsrt := "(Array Int (Array " + ks + " " + vs + "))"
	h := fe.heapGet(st, has, hs)
	pv := "true"
	if !present {
		pv = "false"
	}
	fe.heapSet(st, has, hs, fmt.Sprintf("(store %s %s (store (select %s %s) %s %s))", h, m, h, m, k, pv))
	if present {
		hv := fe.heapGet(st, val, vsrt)
		fe.heapSet(st, val, vsrt, fmt.Sprintf("(store %s %s (store (select %s %s) %s %s))", hv, m, hv, m, k, v))
	}
	fe.storeLog = append(fe.storeLog, storeRec{hv: has, addr: m, pc: st.pc})
}
