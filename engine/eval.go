package main

// Evaluation of contract expressions to SMT terms in a symbolic state.

import (
	"fmt"
	"go/constant"
	"go/types"
	"strings"

	"golang.org/x/tools/go/ssa"
)

// EV is an evaluated contract expression.
type EV struct {
	T     string
	Typ   types.Type // Go type of the value (nil for pure spec sorts)
	Sort  string     // SMT sort when Typ == nil
	Addr  bool       // T is the address of a variable of type Typ (heap-modelled)
	Leaf  *leafRef   // address of a leaf field (Addr)
	IsNil bool
}

type leafRef struct {
	owner types.Type
	field int
	ghost *GhostField // ghost field (heap variable G:Type.name) instead of a Go field
}

const sSet = "(Array Int Bool)"

func ghostSort(g *GhostField) string {
	switch g.Sort {
	case "int", "ref", "strsetmap":
		return sInt
	case "bool":
		return sBool
	case "set":
		return sSet
	case "ifaceset":
		return "(Array " + sIface + " Bool)"
	}
	return sInt
}

func setSortOf(v EV) string {
	if strings.HasPrefix(v.Sort, "(Array ") {
		return v.Sort
	}
	return sSet
}

func ghostVar(g *GhostField) string { return "G:" + g.Type + "." + g.Name }

type Env struct {
	fe          *FuncEnc
	st, old     *State
	vars        map[string]EV
	pkg         *types.Package
	at          *ssa.BasicBlock // loop header for local name resolution (nil: entry/return)
	phiOverride map[*ssa.Phi]string
	entryAt     *ssa.BasicBlock // set while evaluating atentry(e): the loop header
	inOld       bool
	where       string
	facts       []string // heap well-formedness facts about ground pointer loads
	topSt       *State
	inTrigger   bool
	loopPre     *State // state just before the loop (for atentry())
	callAt      ssa.Instruction // set while evaluating a callsite clause: the call instruction
}

func (fe *FuncEnc) envAt(st *State, at *ssa.BasicBlock) *Env {
	env := &Env{fe: fe, st: st, old: fe.entry, vars: map[string]EV{}, at: at}
	if fe.fn.Pkg != nil {
		env.pkg = fe.fn.Pkg.Pkg
	}
	if env.old == nil {
		env.old = st
	}
	return env
}

func (env *Env) sortOfEV(v EV) string {
	if v.Typ != nil {
		return env.fe.sorts().sortOf(v.Typ)
	}
	return v.Sort
}

func (env *Env) errf(format string, args ...interface{}) {
	env.fe.fail("%s: %s", env.where, fmt.Sprintf(format, args...))
}

func (fe *FuncEnc) evalBool(env *Env, e CExpr, where string) string {
	env.where = where
	env.topSt = env.st
	v := env.rvalue(env.eval(e))
	if env.sortOfEV(v) != sBool {
		env.errf("expression %s is not boolean", e)
	}
	env.flushFacts()
	return v.T
}

func (fe *FuncEnc) evalInt(env *Env, e CExpr, where string) string {
	env.where = where
	env.topSt = env.st
	v := env.rvalue(env.eval(e))
	if env.sortOfEV(v) != sInt {
		env.errf("expression %s is not an integer", e)
	}
	env.flushFacts()
	return v.T
}

// flushFacts assumes the recorded heap well-formedness facts (every pointer
// stored in the heap refers to an allocated object) in the state the
// expression was evaluated for.
func (env *Env) flushFacts() {
	if env.topSt != nil {
		for _, f := range env.facts {
			env.fe.assume(env.topSt, f)
		}
	}
	env.facts = nil
}

func (env *Env) noteLoad(v EV) EV {
	if v.Typ == nil || strings.Contains(v.T, "|q_") {
		return v
	}
	switch v.Typ.Underlying().(type) {
	case *types.Pointer, *types.Map, *types.Slice:
		env.facts = append(env.facts, env.fe.typeFacts(env.st, v.T, v.Typ))
		env.facts = append(env.facts, env.fe.versionFact(v.T, v.Typ))
	}
	return v
}

// rvalue loads from an addressed variable.
func (env *Env) rvalue(v EV) EV {
	if !v.Addr {
		return v
	}
	st := env.st
	if v.Leaf != nil && v.Leaf.ghost != nil {
		g := v.Leaf.ghost
		h := env.fe.heapGet(st, ghostVar(g), arrSort(ghostSort(g)))
		return EV{T: fmt.Sprintf("(select %s %s)", h, v.T), Sort: ghostSort(g), Typ: ghostGoType(g)}
	}
	fe := env.fe
	fe.loadTop, fe.loadAddr = "", ""
	defer func() { fe.loadTop, fe.loadAddr = "", "" }()
	if v.Leaf != nil {
		return env.noteLoad(EV{T: fe.loadField(st, v.T, v.Leaf.owner, v.Leaf.field), Typ: v.Typ})
	}
	t := fe.loadAt(st, v.T, v.Typ)
	if isStructVal(v.Typ) {
		fe.loadTop = ""
	}
	return env.noteLoad(EV{T: t, Typ: v.Typ})
}

func (env *Env) eval(e CExpr) EV {
	switch x := e.(type) {
	case *CInt:
		return EV{T: num(x.V), Typ: types.Typ[types.Int]}
	case *CBool:
		if x.V {
			return EV{T: "true", Typ: types.Typ[types.Bool]}
		}
		return EV{T: "false", Typ: types.Typ[types.Bool]}
	case *CStr:
		if x.V == "" {
			return EV{T: "hv_emptystr", Typ: types.Typ[types.String]}
		}
		return EV{T: env.fe.sc.strLit(x.V), Typ: types.Typ[types.String]}
	case *CNil:
		return EV{T: "0", IsNil: true, Sort: sInt}
	case *CIdent:
		return env.ident(x.Name)
	case *COld:
		saved, savedIn := env.st, env.inOld
		env.st, env.inOld = env.old, true
		v := env.rvalue(env.eval(x.X))
		env.st, env.inOld = saved, savedIn
		return v
	case *CUnary:
		v := env.rvalue(env.eval(x.X))
		if x.Op == "!" {
			return EV{T: not(v.T), Typ: types.Typ[types.Bool]}
		}
		return EV{T: "(- " + v.T + ")", Typ: types.Typ[types.Int]}
	case *CBinary:
		return env.binary(x)
	case *CSel:
		return env.sel(x)
	case *CIndex:
		return env.index(x)
	case *CSlice:
		return env.slice(x)
	case *CCall:
		if x.Fn == "atentry" {
			// atentry(e): value of e when the enclosing loop was entered
			if len(x.Args) != 1 || env.loopPre == nil {
				env.errf("atentry(e) is only meaningful in a loop invariant")
			}
			saved, savedAt := env.st, env.at
			env.st, env.at = env.loopPre, nil
			savedIn, savedEntryAt := env.inOld, env.entryAt
			env.inOld = true
			if savedAt != nil {
				env.entryAt = savedAt // locals are resolved at the loop header, phis to their entry value
			}
			v := env.rvalue(env.eval(x.Args[0]))
			env.st, env.at, env.inOld, env.entryAt = saved, savedAt, savedIn, savedEntryAt
			return v
		}
		return env.callExpr(x)
	case *CQuant:
		return env.quant(x)
	}
	env.errf("cannot evaluate %s", e)
	return EV{}
}

func (env *Env) ident(name string) EV {
	if v, ok := env.vars[name]; ok {
		return v
	}
	fe := env.fe
	if fe.closureBind != nil {
		if v, ok := fe.closureBind[name]; ok {
			return v
		}
	}
	if !env.inOld && env.at != nil {
		if v, ok := fe.resolveLocal(env, name); ok {
			return v
		}
	}
	if !env.inOld && env.callAt != nil {
		if v, ok := fe.resolveLocalAtCall(env, name); ok {
			return v
		}
	}
	if env.entryAt != nil {
		// inside atentry(): a local of the enclosing function, as of loop entry
		env.at = env.entryAt
		v, ok := fe.resolveLocal(env, name)
		env.at = nil
		if ok {
			return v
		}
	}
	if !env.inOld && env.at == nil {
		// at a return: address-taken locals / params keep their names
		if v, ok := fe.resolveAlloc(env, name); ok && fe.params[name].T == "" {
			return v
		}
	}
	if v, ok := fe.params[name]; ok {
		return v
	}
	if g, ok := env.st.ghost[name]; ok {
		return EV{T: g, Typ: types.Typ[types.Int]}
	}
	if g, ok := fe.eng.cs.Ghosts["$global."+name]; ok {
		// global ghost variable: a ghost field of the (one) globals pseudo-object
		return EV{T: "hv_globals", Typ: ghostGoType(g), Sort: ghostSort(g), Addr: true, Leaf: &leafRef{ghost: g}}
	}
	// package-level constant
	if env.pkg != nil {
		if obj := env.pkg.Scope().Lookup(name); obj != nil {
			if c, ok := obj.(*types.Const); ok {
				return env.constEV(c)
			}
		}
	}
	env.errf("unbound name %q", name)
	return EV{}
}

func (env *Env) constEV(c *types.Const) EV {
	switch c.Val().Kind() {
	case constant.Int:
		s := c.Val().ExactString()
		if strings.HasPrefix(s, "-") {
			s = "(- " + s[1:] + ")"
		}
		return EV{T: s, Typ: c.Type()}
	case constant.Bool:
		if constant.BoolVal(c.Val()) {
			return EV{T: "true", Typ: c.Type()}
		}
		return EV{T: "false", Typ: c.Type()}
	case constant.String:
		return EV{T: env.fe.sc.strLit(constant.StringVal(c.Val())), Typ: c.Type()}
	}
	env.errf("unsupported constant %s", c.Name())
	return EV{}
}

// visitedKey finds the ghost visited-set of the range loop whose header is env.at.
func (fe *FuncEnc) visitedKey(env *Env) string {
	if env.at == nil {
		return ""
	}
	for _, ins := range env.at.Instrs {
		if nx, ok := ins.(*ssa.Next); ok {
			if rng := fe.rangeOf[fe.val(nx.Iter)]; rng != nil {
				return "visited:" + rng.Name()
			}
		}
	}
	return ""
}

// resolveLocal finds the value a source-level local name denotes at a loop header.
func (fe *FuncEnc) resolveLocal(env *Env, name string) (EV, bool) {
	h := env.at
	// 1. header phi
	for _, ins := range h.Instrs {
		phi, ok := ins.(*ssa.Phi)
		if !ok {
			break
		}
		if phi.Comment == name {
			if env.entryAt != nil {
				// value on entry: the incoming edge from outside the loop
				li := fe.loops[h]
				for i, p := range h.Preds {
					if li == nil || !li.blocks[p] {
						return EV{T: fe.val(phi.Edges[i]), Typ: phi.Type()}, true
					}
				}
			}
			if t, ok := env.phiOverride[phi]; ok {
				return EV{T: t, Typ: phi.Type()}, true
			}
			return EV{T: fe.val(phi), Typ: phi.Type()}, true
		}
	}
	// 2. variable living in an Alloc
	if v, ok := fe.resolveAlloc(env, name); ok {
		return v, true
	}
	// 3. the value bound to the source variable: among all debug references to a
	// variable of that name, the referenced SSA values that are defined before the
	// loop (their block dominates the header). They must agree.
	var cand ssa.Value
	ambiguous := false
	for _, d := range fe.debugRefs {
		if d.IsAddr {
			continue
		}
		obj := debugObj(d)
		if obj == nil || obj.Name() != name {
			continue
		}
		if _, isVar := obj.(*types.Var); !isVar {
			continue
		}
		x := d.X
		if _, isConst := x.(*ssa.Const); isConst {
			continue
		}
		if _, isParam := x.(*ssa.Parameter); isParam {
			continue
		}
		ins, isIns := x.(ssa.Instruction)
		if !isIns || ins.Block() == h || !ins.Block().Dominates(h) {
			continue
		}
		if li := fe.loops[h]; li != nil && li.blocks[ins.Block()] {
			continue
		}
		if cand != nil && cand != x {
			ambiguous = true
		}
		cand = x
	}
	if cand != nil && !ambiguous {
		return EV{T: fe.val(cand), Typ: cand.Type()}, true
	}
	return EV{}, false
}

func debugObj(d *ssa.DebugRef) types.Object {
	// DebugRef.object is unexported; recover it from the expression
	return debugObject(d)
}

func (fe *FuncEnc) resolveAlloc(env *Env, name string) (EV, bool) {
	for _, b := range fe.fn.Blocks {
		for _, ins := range b.Instrs {
			a, ok := ins.(*ssa.Alloc)
			if !ok || a.Comment != name {
				continue
			}
			et := a.Type().Underlying().(*types.Pointer).Elem()
			if fe.localAllocs[a] {
				cur, ok := env.st.locals[a]
				if !ok {
					continue
				}
				return EV{T: cur, Typ: et}, true
			}
			if t, ok := fe.vals[a]; ok {
				return EV{T: t, Typ: et, Addr: true}, true
			}
		}
	}
	return EV{}, false
}

func (env *Env) binary(x *CBinary) EV {
	boolT := types.Typ[types.Bool]
	intT := types.Typ[types.Int]
	switch x.Op {
	case "&&", "||", "==>", "<==>":
		a := env.rvalue(env.eval(x.X))
		b := env.rvalue(env.eval(x.Y))
		if env.sortOfEV(a) != sBool || env.sortOfEV(b) != sBool {
			env.errf("operands of %s must be boolean in %s", x.Op, x)
		}
		switch x.Op {
		case "&&":
			return EV{T: and(a.T, b.T), Typ: boolT}
		case "||":
			return EV{T: or(a.T, b.T), Typ: boolT}
		case "==>":
			return EV{T: implies(a.T, b.T), Typ: boolT}
		default:
			return EV{T: "(= " + a.T + " " + b.T + ")", Typ: boolT}
		}
	case "==", "!=":
		a := env.rvalue(env.eval(x.X))
		b := env.rvalue(env.eval(x.Y))
		t := env.equalEV(a, b, x)
		if x.Op == "!=" {
			t = not(t)
		}
		return EV{T: t, Typ: boolT}
	case "===", "!==":
		a := env.rvalue(env.eval(x.X))
		b := env.rvalue(env.eval(x.Y))
		if env.sortOfEV(a) != sSlice || env.sortOfEV(b) != sSlice {
			env.errf("=== needs slices in %s", x)
		}
		t := fmt.Sprintf("(and (= (hv_org %s) (hv_org %s)) (= (hv_len %s) (hv_len %s)))", a.T, b.T, a.T, b.T)
		if x.Op == "!==" {
			t = not(t)
		}
		return EV{T: t, Typ: boolT}
	case "<", "<=", ">", ">=":
		a := env.rvalue(env.eval(x.X))
		b := env.rvalue(env.eval(x.Y))
		if env.sortOfEV(a) != sInt || env.sortOfEV(b) != sInt {
			env.errf("operands of %s must be integers in %s", x.Op, x)
		}
		return EV{T: fmt.Sprintf("(%s %s %s)", x.Op, a.T, b.T), Typ: boolT}
	case "+", "-", "*", "/", "%":
		a := env.rvalue(env.eval(x.X))
		b := env.rvalue(env.eval(x.Y))
		if x.Op == "+" && env.sortOfEV(a) == sStr {
			return EV{T: fmt.Sprintf("(hv_strcat %s %s)", a.T, b.T), Typ: types.Typ[types.String]}
		}
		if env.sortOfEV(a) != sInt || env.sortOfEV(b) != sInt {
			env.errf("operands of %s must be integers in %s", x.Op, x)
		}
		op := x.Op
		switch op {
		case "/":
			return EV{T: fmt.Sprintf("(hv_div %s %s)", a.T, b.T), Typ: intT}
		case "%":
			return EV{T: fmt.Sprintf("(hv_rem %s %s)", a.T, b.T), Typ: intT}
		}
		return EV{T: fmt.Sprintf("(%s %s %s)", op, a.T, b.T), Typ: intT}
	}
	env.errf("unknown operator %s", x.Op)
	return EV{}
}

func (env *Env) equalEV(a, b EV, x CExpr) string {
	if a.IsNil && b.IsNil {
		return "true"
	}
	if a.IsNil {
		a, b = b, a
	}
	if b.IsNil {
		switch env.sortOfEV(a) {
		case sInt:
			return "(= " + a.T + " 0)"
		case sSlice:
			return "(= (hv_org " + a.T + ") 0)"
		case sIface:
			return "(= (hv_tag " + a.T + ") 0)"
		}
		env.errf("cannot compare %s with nil", x)
	}
	sa, sb := env.sortOfEV(a), env.sortOfEV(b)
	if sa != sb {
		// interface vs concrete
		if sa == sIface && b.Typ != nil {
			return fmt.Sprintf("(= %s (hv_mkiface %d %s))", a.T, env.fe.sorts().typeID(b.Typ), env.fe.sorts().box(b.Typ, b.T))
		}
		if sb == sIface && a.Typ != nil {
			return fmt.Sprintf("(= %s (hv_mkiface %d %s))", b.T, env.fe.sorts().typeID(a.Typ), env.fe.sorts().box(a.Typ, a.T))
		}
		env.errf("sort mismatch in %s: %s vs %s", x, sa, sb)
	}
	return eq(a.T, b.T)
}

func (env *Env) sel(x *CSel) EV {
	// qualified constant pkg.Name
	if id, ok := x.X.(*CIdent); ok {
		if _, bound := env.vars[id.Name]; !bound {
			if c := env.qualifiedConst(id.Name, x.Name); c != nil {
				return env.constEV(c)
			}
			if gv := env.qualifiedVar(id.Name, x.Name); gv != nil {
				// package-level variable of an imported package: same address
				// constant as the code uses for the global
				t := env.fe.sc.declareNamed("global."+gv.Pkg().Name()+"."+gv.Name(), sInt)
				env.fe.knownNonNil[t] = true
				return EV{T: t, Typ: gv.Type(), Addr: true}
			}
		}
	}
	v := env.eval(x.X)
	fe := env.fe
	// pointer to struct: dereference
	if !v.Addr && v.Typ != nil {
		if pt, ok := v.Typ.Underlying().(*types.Pointer); ok {
			v = EV{T: v.T, Typ: pt.Elem(), Addr: true}
		}
	}
	if v.Addr && v.Leaf != nil && v.Leaf.ghost == nil && v.Typ != nil && isValueLike(v.Typ) {
		if g := env.ghostFieldOf(v.Typ, x.Name); g != nil {
			// ghost field of a plain-data struct stored in a field (e.g. a mutex): its identity is the field's address
			a := fmt.Sprintf("(hv_sub %s %d)", v.T, env.fe.eng.subTag(typeLabel(v.Leaf.owner), v.Leaf.field))
			return EV{T: a, Typ: ghostGoType(g), Sort: ghostSort(g), Addr: true, Leaf: &leafRef{ghost: g}}
		}
	}
	if v.Addr && (v.Leaf != nil || isPtrType(v.Typ)) {
		// cell holding a pointer: load it, then dereference
		lv := env.rvalue(v)
		if pt, ok := lv.Typ.Underlying().(*types.Pointer); ok {
			v = EV{T: lv.T, Typ: pt.Elem(), Addr: true}
		} else {
			v = lv
		}
	}
	if v.Typ == nil {
		env.errf("cannot select .%s from %s", x.Name, x.X)
	}
	if g := env.ghostFieldOf(v.Typ, x.Name); g != nil {
		if !v.Addr {
			env.errf("ghost field %s needs an object reference", x.Name)
		}
		return EV{T: v.T, Typ: ghostGoType(g), Sort: ghostSort(g), Addr: true, Leaf: &leafRef{ghost: g}}
	}
	obj, idx, _ := types.LookupFieldOrMethod(v.Typ, true, env.pkgFor(v.Typ), x.Name)
	if _, ok := obj.(*types.Var); !ok || obj == nil {
		env.errf("no field %s in %s", x.Name, typeLabel(v.Typ))
	}
	cur := v
	for _, fi := range idx {
		// a plain-data struct in memory is one value: load it whole
		if cur.Addr && cur.Typ != nil && isValueLike(cur.Typ) {
			cur = env.rvalue(cur)
		}
		// auto-dereference embedded pointers
		if !cur.Addr {
			if pt, ok := cur.Typ.Underlying().(*types.Pointer); ok {
				cur = EV{T: cur.T, Typ: pt.Elem(), Addr: true}
			}
		} else if cur.Leaf != nil || isPtrType(cur.Typ) {
			lv := env.rvalue(cur)
			if pt, ok := lv.Typ.Underlying().(*types.Pointer); ok {
				cur = EV{T: lv.T, Typ: pt.Elem(), Addr: true}
			} else {
				cur = lv
			}
		}
		stT, ok := cur.Typ.Underlying().(*types.Struct)
		if !ok {
			env.errf("selecting field of non-struct %s", typeLabel(cur.Typ))
		}
		ft := stT.Field(fi).Type()
		if cur.Addr {
			if isStructVal(ft) {
				cur = EV{T: fmt.Sprintf("(hv_sub %s %d)", cur.T, fe.eng.subTag(typeLabel(cur.Typ), fi)), Typ: ft, Addr: true}
			} else {
				cur = EV{T: cur.T, Typ: ft, Addr: true, Leaf: &leafRef{owner: cur.Typ, field: fi}}
			}
		} else {
			info := fe.sorts().infoOf(cur.Typ)
			cur = EV{T: fmt.Sprintf("(|%s| %s)", info.fields[fi].accessor, cur.T), Typ: ft}
		}
	}
	return cur
}

func isPtrType(t types.Type) bool {
	if t == nil {
		return false
	}
	_, ok := t.Underlying().(*types.Pointer)
	return ok
}

func ghostGoType(g *GhostField) types.Type {
	switch g.Sort {
	case "int":
		return types.Typ[types.Int]
	case "bool":
		return types.Typ[types.Bool]
	case "strsetmap":
		// a reference to a Go map[string]struct{} (usable with has())
		return types.NewMap(types.Typ[types.String], types.NewStruct(nil, nil))
	}
	return nil
}

// ghostFieldOf finds a ghost field declared for (the named type of) t.
func (env *Env) ghostFieldOf(t types.Type, name string) *GhostField {
	if pt, ok := t.(*types.Pointer); ok {
		t = pt.Elem()
	}
	n, ok := t.(*types.Named)
	if !ok {
		return nil
	}
	cs := env.fe.eng.cs
	if g, ok := cs.Ghosts[n.Obj().Name()+"."+name]; ok {
		return g
	}
	if n.Obj().Pkg() != nil {
		if g, ok := cs.Ghosts[n.Obj().Pkg().Name()+"."+n.Obj().Name()+"."+name]; ok {
			return g
		}
	}
	return nil
}

func (env *Env) pkgFor(t types.Type) *types.Package {
	if pt, ok := t.(*types.Pointer); ok {
		t = pt.Elem()
	}
	if n, ok := t.(*types.Named); ok && n.Obj().Pkg() != nil {
		return n.Obj().Pkg()
	}
	return env.pkg
}

func (env *Env) qualifiedVar(pkgName, name string) *types.Var {
	var pkgs []*types.Package
	if env.pkg != nil {
		pkgs = append(pkgs, env.pkg.Imports()...)
	}
	if env.fe.fn.Pkg != nil {
		pkgs = append(pkgs, env.fe.fn.Pkg.Pkg.Imports()...)
	}
	for _, imp := range pkgs {
		if imp.Name() == pkgName {
			if v, ok := imp.Scope().Lookup(name).(*types.Var); ok {
				return v
			}
		}
	}
	return nil
}

func (env *Env) qualifiedConst(pkgName, name string) *types.Const {
	if env.pkg == nil {
		return nil
	}
	for _, imp := range env.pkg.Imports() {
		if imp.Name() == pkgName {
			if c, ok := imp.Scope().Lookup(name).(*types.Const); ok {
				return c
			}
		}
	}
	return nil
}

func (env *Env) index(x *CIndex) EV {
	v := env.rvalue(env.eval(x.X))
	i := env.rvalue(env.eval(x.I))
	fe := env.fe
	if v.Typ == nil {
		if strings.HasPrefix(v.Sort, "(Array ") {
			return EV{T: fmt.Sprintf("(select %s %s)", v.T, i.T), Sort: arrayElemSort(v.Sort)}
		}
		env.errf("cannot index %s", x.X)
	}
	switch t := v.Typ.Underlying().(type) {
	case *types.Slice:
		a := fmt.Sprintf("(hv_elem (hv_org %s) %s)", v.T, i.T)
		return EV{T: a, Typ: t.Elem(), Addr: true}
	case *types.Basic:
		return EV{T: fmt.Sprintf("(hv_strat %s %s)", v.T, i.T), Typ: types.Typ[types.Int]}
	case *types.Map:
		return EV{T: fmt.Sprintf("(select %s %s)", fe.mapValArr(env.st, t, v.T), i.T), Typ: t.Elem()}
	case *types.Array:
		return EV{T: fmt.Sprintf("(select %s %s)", v.T, i.T), Typ: t.Elem()}
	case *types.Pointer:
		if at, ok := t.Elem().Underlying().(*types.Array); ok {
			return EV{T: fmt.Sprintf("(hv_elem %s %s)", v.T, i.T), Typ: at.Elem(), Addr: true}
		}
	}
	env.errf("cannot index %s", x.X)
	return EV{}
}

// typeArgName renders a type argument of typeis/unbox: Name, pkg.Name, ptr(T).
func typeArgName(e CExpr) string {
	switch x := e.(type) {
	case *CIdent:
		return x.Name
	case *CSel:
		if id, ok := x.X.(*CIdent); ok {
			return id.Name + "." + x.Name
		}
	case *CCall:
		if x.Fn == "ptr" && len(x.Args) == 1 {
			if in := typeArgName(x.Args[0]); in != "" {
				return "*" + in
			}
		}
	}
	return ""
}

// advOrg advances a slice origin by lo elements.
func advOrg(org, lo string) string {
	if lo == "0" {
		return org
	}
	return "(hv_adv " + org + " " + lo + ")"
}

func arrayElemSort(s string) string {
	// "(Array K V)" with K atomic
	inner := strings.TrimSuffix(strings.TrimPrefix(s, "(Array "), ")")
	if i := strings.Index(inner, " "); i >= 0 {
		return inner[i+1:]
	}
	return sInt
}

func (env *Env) slice(x *CSlice) EV {
	v := env.rvalue(env.eval(x.X))
	lo := "0"
	if x.Lo != nil {
		lo = env.rvalue(env.eval(x.Lo)).T
	}
	if v.Typ != nil && isString(v.Typ) {
		hi := "(hv_strlen " + v.T + ")"
		if x.Hi != nil {
			hi = env.rvalue(env.eval(x.Hi)).T
		}
		env.fe.eng.sorts.extra("(declare-fun hv_substr (hv_Str Int Int) hv_Str)")
		return EV{T: fmt.Sprintf("(hv_substr %s %s %s)", v.T, lo, hi), Typ: v.Typ}
	}
	if env.sortOfEV(v) != sSlice {
		env.errf("cannot slice %s", x.X)
	}
	hi := "(hv_len " + v.T + ")"
	if x.Hi != nil {
		hi = env.rvalue(env.eval(x.Hi)).T
	}
	return EV{T: fmt.Sprintf("(hv_mkslice %s (- %s %s) (- (hv_cap %s) %s))", advOrg("(hv_org "+v.T+")", lo), hi, lo, v.T, lo), Typ: v.Typ}
}

func (env *Env) quant(x *CQuant) EV {
	saved := map[string]*EV{}
	var decls []string
	var guards []string
	for _, v := range x.Vars {
		if old, ok := env.vars[v.Name]; ok {
			o := old
			saved[v.Name] = &o
		} else {
			saved[v.Name] = nil
		}
		typ, srt := env.resolveType(v.Type)
		name := "q_" + v.Name
		env.fe.sc.n++
		name = fmt.Sprintf("%s!%d", name, env.fe.sc.n)
		decls = append(decls, fmt.Sprintf("(|%s| %s)", name, srt))
		ev := EV{T: "|" + name + "|", Typ: typ, Sort: srt}
		env.vars[v.Name] = ev
		if typ != nil {
			switch typ.Underlying().(type) {
			case *types.Pointer, *types.Map:
				// quantification over references ranges over allocated, non-nil objects
				guards = append(guards, fmt.Sprintf("(and (not (= %s 0)) (<= (hv_base %s) %s))", ev.T, ev.T, env.st.allocTop))
			}
		}
	}
	body := env.rvalue(env.eval(x.Body))
	if env.sortOfEV(body) != sBool {
		env.errf("quantifier body must be boolean: %s", x)
	}
	var trig string
	if len(x.Trig) > 0 {
		var ts []string
		env.inTrigger = true
		for _, t := range x.Trig {
			ts = append(ts, env.rvalue(env.eval(t)).T)
		}
		trig = " :pattern (" + strings.Join(ts, " ") + ")"
		for _, grp := range x.AltTrig {
			var gs []string
			for _, t := range grp {
				gs = append(gs, env.rvalue(env.eval(t)).T)
			}
			trig += " :pattern (" + strings.Join(gs, " ") + ")"
		}
		env.inTrigger = false
	}
	for n, o := range saved {
		if o == nil {
			delete(env.vars, n)
		} else {
			env.vars[n] = *o
		}
	}
	q := "forall"
	b := implies(and(guards...), body.T)
	if !x.Forall {
		q = "exists"
		b = and(and(guards...), body.T)
	}
	if trig != "" {
		b = "(! " + b + trig + ")"
	}
	return EV{T: fmt.Sprintf("(%s (%s) %s)", q, strings.Join(decls, " "), b), Typ: types.Typ[types.Bool]}
}

// resolveType maps a type name used in a contract to a Go type / SMT sort.
func (env *Env) resolveType(name string) (types.Type, string) {
	switch name {
	case "int":
		return types.Typ[types.Int], sInt
	case "bool":
		return types.Typ[types.Bool], sBool
	case "string":
		return types.Typ[types.String], sStr
	case "byte":
		return types.Typ[types.Uint8], sInt
	case "ref":
		return nil, sInt
	case "iface":
		return nil, sIface
	case "Seq":
		return nil, "hv_Seq"
	}
	if strings.HasPrefix(name, "*") {
		t, _ := env.resolveType(name[1:])
		if t == nil {
			env.errf("unknown type %s", name)
		}
		return types.NewPointer(t), sInt
	}
	if strings.HasPrefix(name, "[]") {
		t, _ := env.resolveType(name[2:])
		if t == nil {
			env.errf("unknown type %s", name)
		}
		return types.NewSlice(t), sSlice
	}
	pkg := env.pkg
	tn := name
	if i := strings.Index(name, "."); i >= 0 {
		pn := name[:i]
		tn = name[i+1:]
		var found *types.Package
		if env.pkg != nil && env.pkg.Name() == pn {
			if _, ok := env.pkg.Scope().Lookup(tn).(*types.TypeName); ok {
				found = env.pkg
			}
		}
		if found == nil && env.pkg != nil {
			for _, imp := range env.pkg.Imports() {
				if imp.Name() == pn {
					found = imp
				}
			}
		}
		if found == nil {
			found = env.fe.eng.pkgByName(pn)
		}
		pkg = found
	}
	if pkg != nil {
		if obj, ok := pkg.Scope().Lookup(tn).(*types.TypeName); ok {
			return obj.Type(), env.fe.sorts().sortOf(obj.Type())
		}
	}
	// fall back: search every loaded package of the repository
	if t := env.fe.eng.lookupTypeAnywhere(tn); t != nil {
		return t, env.fe.sorts().sortOf(t)
	}
	env.errf("unknown type %s", name)
	return nil, ""
}

func (env *Env) callExpr(x *CCall) EV {
	fe := env.fe
	boolT := types.Typ[types.Bool]
	intT := types.Typ[types.Int]
	arg := func(i int) EV { return env.rvalue(env.eval(x.Args[i])) }
	need := func(n int) {
		if len(x.Args) != n {
			env.errf("%s expects %d argument(s)", x.Fn, n)
		}
	}
	switch x.Fn {
	case "len":
		need(1)
		v := arg(0)
		switch env.sortOfEV(v) {
		case sSlice:
			return EV{T: "(hv_len " + v.T + ")", Typ: intT}
		case sStr:
			return EV{T: "(hv_strlen " + v.T + ")", Typ: intT}
		}
		if v.Typ != nil {
			if at, ok := v.Typ.Underlying().(*types.Array); ok {
				return EV{T: fmt.Sprint(at.Len()), Typ: intT}
			}
		}
		env.errf("len of %s", x.Args[0])
	case "cap":
		need(1)
		return EV{T: "(hv_cap " + arg(0).T + ")", Typ: intT}
	case "arr":
		need(1)
		return EV{T: "(hv_root (hv_org " + arg(0).T + "))", Sort: sInt}
	case "off":
		need(1)
		return EV{T: "(hv_offs (hv_org " + arg(0).T + "))", Typ: intT}
	case "org":
		need(1)
		return EV{T: "(hv_org " + arg(0).T + ")", Sort: sInt}
	case "adv":
		need(2)
		return EV{T: advOrg(arg(0).T, arg(1).T), Sort: sInt}
	case "tag":
		need(1)
		return EV{T: "(hv_tag " + arg(0).T + ")", Typ: intT}
	case "ifaceval":
		need(1)
		return EV{T: "(hv_val " + arg(0).T + ")", Sort: sInt}
	case "base":
		need(1)
		return EV{T: "(hv_base " + arg(0).T + ")", Sort: sInt}
	case "fresh":
		// allocated during this call (relative to the old state)
		need(1)
		v := arg(0)
		t := v.T
		if env.sortOfEV(v) == sSlice {
			t = "(hv_org " + t + ")"
		}
		return EV{T: fmt.Sprintf("(and (> (hv_base %s) %s) (<= (hv_base %s) %s))", t, env.old.allocTop, t, env.st.allocTop), Typ: boolT}
	case "existed":
		// existed(p): p was allocated in the old (entry / pre-call) state
		need(1)
		v := arg(0)
		return EV{T: fmt.Sprintf("(<= (hv_base %s) %s)", v.T, env.old.allocTop), Typ: boolT}
	case "allocated":
		need(1)
		v := arg(0)
		return EV{T: fmt.Sprintf("(<= (hv_base %s) %s)", v.T, env.st.allocTop), Typ: boolT}
	case "ite":
		need(3)
		c, a, b := arg(0), arg(1), arg(2)
		return EV{T: ite(c.T, a.T, b.T), Typ: a.Typ, Sort: a.Sort}
	case "has":
		// has(m, k): key present in map
		need(2)
		m, k := arg(0), arg(1)
		mt, ok := m.Typ.Underlying().(*types.Map)
		if !ok {
			env.errf("has() needs a map")
		}
		if env.inTrigger {
			return EV{T: fmt.Sprintf("(select %s %s)", fe.mapHasArr(env.st, mt, m.T), k.T), Typ: boolT}
		}
		return EV{T: fmt.Sprintf("(and (not (= %s 0)) (select %s %s))", m.T, fe.mapHasArr(env.st, mt, m.T), k.T), Typ: boolT}
	case "typeis":
		// typeis(x, T): dynamic type of interface value x is T
		need(2)
		v := arg(0)
		tn := typeArgName(x.Args[1])
		if tn == "" {
			env.errf("typeis needs a type name")
		}
		t, _ := env.resolveType(tn)
		return EV{T: fmt.Sprintf("(= (hv_tag %s) %d)", v.T, fe.sorts().typeID(t)), Typ: boolT}
	case "unbox":
		// unbox(x, T): payload of interface x viewed as T
		need(2)
		v := arg(0)
		tn := typeArgName(x.Args[1])
		if tn == "" {
			env.errf("unbox needs a type name")
		}
		t, _ := env.resolveType(tn)
		return EV{T: fe.sorts().unbox(t, "(hv_val "+v.T+")"), Typ: t}
	case "iface":
		// iface(x): the interface value wrapping concrete x
		need(1)
		v := arg(0)
		if v.Typ == nil {
			env.errf("iface() needs a typed value")
		}
		return EV{T: fmt.Sprintf("(hv_mkiface %d %s)", fe.sorts().typeID(v.Typ), fe.sorts().box(v.Typ, v.T)), Sort: sIface}
	case "addr":
		// addr(x): the address of an addressed variable / element
		need(1)
		v := env.eval(x.Args[0])
		if !v.Addr || v.Leaf != nil {
			env.errf("addr() of a non-addressable expression %s", x.Args[0])
		}
		return EV{T: v.T, Typ: types.NewPointer(v.Typ)}
	case "deref":
		// deref(p): the memory cell a typed pointer designates
		need(1)
		v := env.rvalue(arg(0))
		pt, ok := v.Typ.Underlying().(*types.Pointer)
		if v.Typ == nil || !ok {
			env.errf("deref() needs a typed pointer")
		}
		return EV{T: v.T, Typ: pt.Elem(), Addr: true}
	case "visited":
		// visited(k): key k has already been produced by the map iteration of the enclosing loop
		need(1)
		key := env.fe.visitedKey(env)
		vis, ok := env.st.ghost[key]
		if !ok {
			env.errf("visited() used outside a range-over-map loop")
		}
		return EV{T: fmt.Sprintf("(select %s %s)", vis, arg(0).T), Typ: boolT}
	case "in":
		need(2)
		return EV{T: fmt.Sprintf("(select %s %s)", arg(1).T, arg(0).T), Typ: boolT}
	case "add":
		need(2)
		return EV{T: fmt.Sprintf("(store %s %s true)", arg(0).T, arg(1).T), Sort: setSortOf(arg(0))}
	case "del":
		need(2)
		return EV{T: fmt.Sprintf("(store %s %s false)", arg(0).T, arg(1).T), Sort: setSortOf(arg(0))}
	case "emptyset":
		need(0)
		return EV{T: "((as const (Array Int Bool)) false)", Sort: sSet}
	case "strat":
		need(2)
		return EV{T: fmt.Sprintf("(hv_strat %s %s)", arg(0).T, arg(1).T), Typ: intT}
	}
	if p, ok := fe.eng.cs.Preds[x.Fn]; ok {
		return env.expandPred(p, x)
	}
	if sf, ok := fe.eng.cs.SpecFuncs[x.Fn]; ok {
		return env.applySpecFunc(sf, x)
	}
	env.errf("unknown function %s", x.Fn)
	return EV{}
}

func (env *Env) expandPred(p *Pred, x *CCall) EV {
	if len(x.Args) != len(p.Params) {
		env.errf("%s expects %d argument(s)", p.Name, len(p.Params))
	}
	saved := map[string]*EV{}
	var vals []EV
	for i := range p.Params {
		vals = append(vals, env.rvalue(env.eval(x.Args[i])))
	}
	for i, pa := range p.Params {
		if old, ok := env.vars[pa.Name]; ok {
			o := old
			saved[pa.Name] = &o
		} else {
			saved[pa.Name] = nil
		}
		v := vals[i]
		if v.Typ == nil || v.IsNil {
			if t, srt := env.resolveType(pa.Type); t != nil {
				v.Typ = t
				v.IsNil = false
			} else {
				v.Sort = srt
			}
		}
		env.vars[pa.Name] = v
	}
	savedWhere := env.where
	env.where = p.Where + " (via " + savedWhere + ")"
	savedAt := env.at
	env.at = nil
	savedIn := env.inOld
	env.inOld = true // no function-local name resolution inside predicate bodies
	r := env.rvalue(env.evalPredBody(p))
	env.inOld = savedIn
	env.at = savedAt
	env.where = savedWhere
	for n, o := range saved {
		if o == nil {
			delete(env.vars, n)
		} else {
			env.vars[n] = *o
		}
	}
	return r
}

func (env *Env) evalPredBody(p *Pred) EV {
	// params of the enclosing function must not leak into predicate bodies
	fe := env.fe
	savedParams := fe.params
	fe.params = map[string]EV{}
	defer func() { fe.params = savedParams }()
	return env.eval(p.Body)
}

func (env *Env) applySpecFunc(sf *SpecFunc, x *CCall) EV {
	if len(x.Args) != len(sf.Params) {
		env.errf("%s expects %d argument(s)", sf.Name, len(sf.Params))
	}
	var args []string
	var psorts []string
	for i, pa := range sf.Params {
		v := env.rvalue(env.eval(x.Args[i]))
		_, srt := env.resolveType(pa.Type)
		if got := env.sortOfEV(v); got != srt && !v.IsNil {
			env.errf("argument %d of %s has sort %s, want %s", i, sf.Name, got, srt)
		}
		args = append(args, v.T)
		psorts = append(psorts, srt)
	}
	rt, rs := env.resolveType(sf.Result)
	env.fe.eng.sorts.extra(fmt.Sprintf("(declare-fun sf_%s (%s) %s)", sf.Name, strings.Join(psorts, " "), rs))
	if len(args) == 0 {
		return EV{T: "sf_" + sf.Name, Typ: rt, Sort: rs}
	}
	return EV{T: fmt.Sprintf("(sf_%s %s)", sf.Name, strings.Join(args, " ")), Typ: rt, Sort: rs}
}

// assigns --------------------------------------------------------------------

type assignLoc struct {
	hv   string
	addr string
	cond string // membership condition with %x% as the cell address (location sets)
	all  bool
}

// assignLocs evaluates the locations of an assigns clause in the given
// (pre-)state.
func (fe *FuncEnc) assignLocs(env *Env, locs []CExpr, where string) []assignLoc {
	env.where = where
	var out []assignLoc
	for _, l := range locs {
		out = append(out, env.locsOf(l)...)
	}
	return out
}

func (env *Env) locsOf(l CExpr) []assignLoc {
	fe := env.fe
	// x[*] : all elements of a slice (all leaf cells); T.f[*] handled via "allof"
	if st, ok := l.(*CStar); ok {
		v := env.rvalue(env.eval(st.X))
		if env.sortOfEV(v) == sSlice && v.Typ != nil {
			et := v.Typ.Underlying().(*types.Slice).Elem()
			var out []assignLoc
			for _, c := range fe.eng.leafCells(et) {
				fe.heapSorts[c.varName] = arrSort(c.sort)
				// cell address x belongs to the set iff its base array is the slice's array
				out = append(out, assignLoc{hv: c.varName, addr: "0", cond: fmt.Sprintf("(= (hv_base %%x%%) (hv_base (hv_org %s)))", v.T)})
			}
			return out
		}
		env.errf("[*] needs a slice: %s", l)
	}
	if c, ok := l.(*CCall); ok && c.Fn == "allcells" && len(c.Args) == 1 {
		// allcells(T): every memory cell holding a value of type T that is stored as one unit
		// (pointers, interfaces, basic values, plain-data structs) - in particular the elements
		// of every []T. Used for the scratch slices (diagnostics, mark sets) a function appends to.
		if tn := typeArgName(c.Args[0]); tn != "" {
			if t, _ := env.resolveType(tn); t != nil {
				var out []assignLoc
				for _, cell := range fe.eng.leafCells(t) {
					fe.heapSorts[cell.varName] = arrSort(cell.sort)
					out = append(out, assignLoc{hv: cell.varName, all: true, addr: "0"})
				}
				return out
			}
		}
		env.errf("bad allcells(): %s", l)
	}
	if c, ok := l.(*CCall); ok && c.Fn == "allof" && len(c.Args) == 1 {
		// allof(Type): the memory of a plain-data struct type (all objects)
		if id, ok := c.Args[0].(*CIdent); ok {
			if t, _ := env.resolveType(id.Name); t != nil && isValueLike(t) {
				hv := fe.eng.memVar(t)
				fe.heapSorts[hv] = arrSort(fe.sorts().sortOf(t))
				return []assignLoc{{hv: hv, all: true, addr: "0"}}
			}
		}
	}
	if c, ok := l.(*CCall); ok && (c.Fn == "allof" || c.Fn == "allmaps") {
		// allof(Type.field): the whole heap variable; allmaps(Type.field): the contents of
		// every map of the field's map type. The type may be package-qualified; a type of a
		// package that is not part of the loaded program has no memory to write.
		if len(c.Args) == 1 {
			if s, ok := c.Args[0].(*CSel); ok {
				if sx, ok := s.X.(*CSel); ok {
					if pid, ok := sx.X.(*CIdent); ok {
						if env.fe.eng.pkgByName(pid.Name) == nil {
							return nil
						}
						s = &CSel{X: &CIdent{Name: pid.Name + "." + sx.Name}, Name: s.Name}
					}
				}
				if id, ok := s.X.(*CIdent); ok {
					if g, ok := fe.eng.cs.Ghosts[id.Name+"."+s.Name]; ok {
						fe.heapSorts[ghostVar(g)] = arrSort(ghostSort(g))
						return []assignLoc{{hv: ghostVar(g), all: true, addr: "0"}}
					}
					t, _ := env.resolveType(id.Name)
					stT := t.Underlying().(*types.Struct)
					for i := 0; i < stT.NumFields(); i++ {
						if stT.Field(i).Name() == s.Name && c.Fn == "allmaps" {
							mt, isMap := stT.Field(i).Type().Underlying().(*types.Map)
							if !isMap {
								env.errf("allmaps(): %s is not a map field", l)
							}
							has, val, ks, vs := fe.mapVars(mt)
							fe.heapSorts[has] = "(Array Int (Array " + ks + " Bool))"
							fe.heapSorts[val] = "(Array Int (Array " + ks + " " + vs + "))"
							return []assignLoc{{hv: has, all: true, addr: "0"}, {hv: val, all: true, addr: "0"}}
						}
						if stT.Field(i).Name() == s.Name {
							hv := fe.eng.fieldVar(t, i)
							fe.heapSorts[hv] = arrSort(fe.sorts().sortOf(stT.Field(i).Type()))
							return []assignLoc{{hv: hv, all: true, addr: "0"}}
						}
					}
				}
			}
		}
		env.errf("bad allof(): %s", l)
	}
	if c, ok := l.(*CCall); ok && c.Fn == "mapof" {
		// mapof(m): the contents of map m
		v := env.rvalue(env.eval(c.Args[0]))
		mt, ok := v.Typ.Underlying().(*types.Map)
		if !ok {
			env.errf("mapof needs a map")
		}
		has, val, ks, vs := fe.mapVars(mt)
		fe.heapSorts[has] = "(Array Int (Array " + ks + " Bool))"
		fe.heapSorts[val] = "(Array Int (Array " + ks + " " + vs + "))"
		return []assignLoc{{hv: has, addr: v.T}, {hv: val, addr: v.T}}
	}
	v := env.eval(l)
	if !v.Addr && v.Typ != nil {
		// a pointer names its pointee
		if pt, ok := v.Typ.Underlying().(*types.Pointer); ok {
			v = EV{T: v.T, Typ: pt.Elem(), Addr: true}
		}
	}
	if !v.Addr {
		env.errf("assigns location %s is not addressable", l)
	}
	if v.Leaf != nil && v.Leaf.ghost != nil {
		hv := ghostVar(v.Leaf.ghost)
		fe.heapSorts[hv] = arrSort(ghostSort(v.Leaf.ghost))
		return []assignLoc{{hv: hv, addr: v.T}}
	}
	if v.Leaf != nil {
		hv := fe.eng.fieldVar(v.Leaf.owner, v.Leaf.field)
		fe.heapSorts[hv] = arrSort(fe.sorts().sortOf(v.Typ))
		return []assignLoc{{hv: hv, addr: v.T}}
	}
	var out []assignLoc
	for _, c := range fe.eng.leafCells(v.Typ) {
		fe.heapSorts[c.varName] = arrSort(c.sort)
		out = append(out, assignLoc{hv: c.varName, addr: c.addr(v.T)})
	}
	return out
}

// resolveLocalAtCall finds the value a source-level local name denotes at a call instruction: the
// SSA value of the nearest debug reference to a variable of that name that precedes the call (same
// block, earlier) or sits in a block that dominates the call's block. Values defined after the call
// or on paths that do not dominate it are not candidates.
func (fe *FuncEnc) resolveLocalAtCall(env *Env, name string) (EV, bool) {
	call := env.callAt
	cb := call.Block()
	idx := map[ssa.Instruction]int{}
	for _, b := range fe.fn.Blocks {
		for i, ins := range b.Instrs {
			idx[ins] = i
		}
	}
	var best *ssa.DebugRef
	better := func(d *ssa.DebugRef) bool {
		if best == nil {
			return true
		}
		// later in the dominator chain wins; within one block the later instruction wins
		if d.Block() == best.Block() {
			return idx[d] > idx[best]
		}
		return best.Block().Dominates(d.Block())
	}
	for _, d := range fe.debugRefs {
		if d.IsAddr {
			continue
		}
		obj := debugObj(d)
		if obj == nil || obj.Name() != name {
			continue
		}
		if _, isVar := obj.(*types.Var); !isVar {
			continue
		}
		if d.Block() == cb {
			if idx[d] >= idx[call] {
				continue
			}
		} else if !d.Block().Dominates(cb) {
			continue
		}
		if better(d) {
			best = d
		}
	}
	if best == nil {
		return EV{}, false
	}
	return EV{T: fe.val(best.X), Typ: best.X.Type()}, true
}
