package main

import (
	"os"
	"fmt"
	"go/token"
	"go/types"
	"strings"

	"golang.org/x/tools/go/ssa"
)

// addr describes where an address-typed SSA value points: a base location
// (a value-modelled local, a leaf field of an object-like struct, or a plain
// heap cell) plus a path into the (value-like) value stored there.
type addr struct {
	local   *ssa.Alloc // base: value-modelled local
	ptr     string     // base: heap address (object address for leaf, else cell address)
	leaf    bool       // base: leaf field `field` of object-like struct `owner` at ptr
	owner   types.Type
	field   int
	rootTyp types.Type // type of the value stored at the base location
	baseVal ssa.Value  // leaf: the SSA value of the object pointer
	path    []pathElem
	typ     types.Type // type of the addressed value
}

func ptrElem(t types.Type) types.Type { return t.Underlying().(*types.Pointer).Elem() }

// addrOf resolves an address-typed value structurally.
func (fe *FuncEnc) addrOf(st *State, v ssa.Value) addr {
	et := ptrElem(v.Type())
	switch x := v.(type) {
	case *ssa.Alloc:
		if fe.localAllocs[x] {
			return addr{local: x, rootTyp: et, typ: et}
		}
	case *ssa.FieldAddr:
		stT := ptrElem(x.X.Type())
		if _, ok := fe.localRoot(x.X); ok || isValueLike(stT) {
			a := fe.addrOf(st, x.X)
			a.path = append(append([]pathElem{}, a.path...), pathElem{field: x.Field})
			a.typ = et
			return a
		}
		if isStructVal(et) {
			return addr{ptr: fe.val(x), rootTyp: et, typ: et}
		}
		return addr{ptr: fe.val(x.X), leaf: true, owner: stT, field: x.Field, rootTyp: et, typ: et, baseVal: x.X}
	case *ssa.IndexAddr:
		if pt, isPtr := x.X.Type().Underlying().(*types.Pointer); isPtr {
			if _, ok := fe.localRoot(x.X); ok || fe.isPathAddr(x.X) {
				_ = pt
				a := fe.addrOf(st, x.X)
				a.path = append(append([]pathElem{}, a.path...), pathElem{index: fe.val(x.Index)})
				a.typ = et
				return a
			}
		}
		return addr{ptr: fe.val(x), rootTyp: et, typ: et}
	}
	return addr{ptr: fe.val(v), rootTyp: et, typ: et}
}

// isPathAddr: the address points inside a value-like value (array field of a struct).
func (fe *FuncEnc) isPathAddr(v ssa.Value) bool {
	fa, ok := v.(*ssa.FieldAddr)
	if !ok {
		return false
	}
	if _, ok := fe.localRoot(fa.X); ok {
		return true
	}
	return isValueLike(ptrElem(fa.X.Type()))
}

// localRoot reports whether the address value is a path into a value-modelled local.
func (fe *FuncEnc) localRoot(v ssa.Value) (*ssa.Alloc, bool) {
	for {
		switch x := v.(type) {
		case *ssa.Alloc:
			if fe.localAllocs[x] {
				return x, true
			}
			return nil, false
		case *ssa.FieldAddr:
			v = x.X
		case *ssa.IndexAddr:
			if _, isPtr := x.X.Type().Underlying().(*types.Pointer); !isPtr {
				return nil, false
			}
			v = x.X
		default:
			return nil, false
		}
	}
}

func (fe *FuncEnc) loadBase(st *State, a addr) string {
	switch {
	case a.local != nil:
		cur, ok := st.locals[a.local]
		if !ok {
			cur = fe.sorts().zero(a.rootTyp)
		}
		return cur
	case a.leaf:
		return fe.loadField(st, a.ptr, a.owner, a.field)
	default:
		return fe.loadAt(st, a.ptr, a.rootTyp)
	}
}

func (fe *FuncEnc) load(st *State, a addr) string {
	t, _ := fe.projectPath(a.rootTyp, fe.loadBase(st, a), a.path)
	return t
}

func (fe *FuncEnc) store(st *State, a addr, v string) {
	nv := v
	if len(a.path) > 0 {
		nv = fe.updatePath(a.rootTyp, fe.loadBase(st, a), a.path, v)
	}
	switch {
	case a.local != nil:
		st.locals[a.local] = fe.sc.define("local."+a.local.Comment, fe.sorts().sortOf(a.rootTyp), nv)
		fe.noteWrite("local:" + a.local.Name())
	case a.leaf:
		fe.storeField(st, a.ptr, a.owner, a.field, nv)
	default:
		fe.storeAt(st, a.ptr, a.rootTyp, nv)
	}
}

func (fe *FuncEnc) nilCheck(st *State, p string, pos token.Pos, what string) {
	if fe.knownNonNil[p] {
		return
	}
	fe.oblige(st, "nil", "", "(not (= "+p+" 0))", pos, "nil dereference: "+what)
}

func (fe *FuncEnc) setVal(v ssa.Value, term string) {
	fe.vals[v] = fe.sc.define(fe.valName(v), fe.sorts().sortOf(v.Type()), term)
}

func (fe *FuncEnc) freshVal(st *State, v ssa.Value) string {
	t := fe.sc.declare(v.Name(), fe.sorts().sortOf(v.Type()))
	fe.vals[v] = t
	fe.assume(st, fe.typeFacts(st, t, v.Type()))
	return t
}

// newRef allocates a fresh object reference.
func (fe *FuncEnc) newRef(st *State, hint string) string {
	r := fe.sc.declare("ref."+hint, sInt)
	fe.assume(st, fmt.Sprintf("(and (> %s %s) (= (hv_base %s) %s) (= (hv_kind %s) 0) (= (hv_root %s) %s) (= (hv_offs %s) 0))", r, st.allocTop, r, r, r, r, r, r))
	st.allocTop = r
	fe.knownNonNil[r] = true
	return r
}

func (fe *FuncEnc) instr(ins ssa.Instruction, st *State) {
	switch x := ins.(type) {
	case *ssa.DebugRef:
	case *ssa.Phi:
		// handled at block entry
	case *ssa.Alloc:
		et := x.Type().Underlying().(*types.Pointer).Elem()
		if fe.localAllocs[x] {
			st.locals[x] = fe.sorts().zero(et)
			fe.noteWrite("local:" + x.Name())
			return
		}
		r := fe.newRef(st, x.Comment)
		fe.vals[x] = r
		fe.assume(st, fe.typeFacts(st, r, x.Type()))
		fe.initZero(st, r, et)
		fe.initGhost(st, r, et)
	case *ssa.FieldAddr:
		if _, ok := fe.localRoot(x.X); ok {
			return
		}
		et := ptrElem(x.Type())
		stT := ptrElem(x.X.Type())
		if !isValueLike(stT) && !isStructVal(et) {
			// leaf field of an object: if its address is used as a pointer value (passed to a
			// call), give it an identity (contents through that pointer are not modelled: A7)
			if fe.addrEscapes(x) {
				p0 := fe.val(x.X)
				fe.setVal(x, fmt.Sprintf("(hv_sub %s %d)", p0, fe.eng.subTag(typeLabel(stT), x.Field)))
				fe.knownNonNil[fe.vals[x]] = true
			}
		}
		if isValueLike(stT) {
			// field of a plain-data value: resolved structurally at loads/stores
			if ba := fe.addrOf(st, x.X); ba.local == nil && len(ba.path) == 0 {
				fe.nilCheck(st, ba.ptr, x.Pos(), "field "+fieldName(x))
			}
			fe.checkAddrUses(x, "field "+fieldName(x)+" of plain-data struct "+typeLabel(stT))
			return
		}
		p := fe.val(x.X)
		fe.nilCheck(st, p, x.Pos(), "field "+fieldName(x))
		if isStructVal(et) {
			fe.setVal(x, fmt.Sprintf("(hv_sub %s %d)", p, fe.eng.subTag(typeLabel(stT), x.Field)))
			fe.knownNonNil[fe.vals[x]] = true
			return
		}
		// leaf field: only loads and stores may use the address
		fe.checkAddrUses(x, "scalar field "+fieldName(x))
	case *ssa.Field:
		info := fe.sorts().infoOf(x.X.Type())
		fe.setVal(x, fmt.Sprintf("(|%s| %s)", info.fields[x.Field].accessor, fe.val(x.X)))
		if fe.sc.taint && isString(x.Type()) && fe.repoStruct(x.X.Type()) && !fe.eng.cs.DirtyStrings[fieldKey(x.X.Type(), x.Field)] {
			fe.assume(st, "(sf_clean "+fe.vals[x]+")")
		}
	case *ssa.IndexAddr:
		if _, ok := fe.localRoot(x.X); ok || fe.isPathAddr(x.X) {
			at := x.X.Type().Underlying().(*types.Pointer).Elem().Underlying().(*types.Array)
			i := fe.val(x.Index)
			fe.oblige(st, "bounds", "", fmt.Sprintf("(and (<= 0 %s) (< %s %d))", i, i, at.Len()), x.Pos(), "array index in range")
			return
		}
		i := fe.val(x.Index)
		switch xt := x.X.Type().Underlying().(type) {
		case *types.Slice:
			s := fe.val(x.X)
			fe.oblige(st, "bounds", "", fmt.Sprintf("(and (<= 0 %s) (< %s (hv_len %s)))", i, i, s), x.Pos(), "slice index in range")
			fe.setVal(x, fmt.Sprintf("(hv_elem (hv_org %s) %s)", s, i))
		case *types.Pointer:
			at := xt.Elem().Underlying().(*types.Array)
			p := fe.val(x.X)
			fe.nilCheck(st, p, x.Pos(), "array pointer")
			fe.oblige(st, "bounds", "", fmt.Sprintf("(and (<= 0 %s) (< %s %d))", i, i, at.Len()), x.Pos(), "array index in range")
			fe.setVal(x, fmt.Sprintf("(hv_elem %s %s)", p, i))
		default:
			fe.freshVal(st, x)
		}
		fe.knownNonNil[fe.vals[x]] = true
	case *ssa.Index:
		i := fe.val(x.Index)
		switch xt := x.X.Type().Underlying().(type) {
		case *types.Array:
			fe.oblige(st, "bounds", "", fmt.Sprintf("(and (<= 0 %s) (< %s %d))", i, i, xt.Len()), x.Pos(), "array index in range")
			fe.setVal(x, fmt.Sprintf("(select %s %s)", fe.val(x.X), i))
		default: // string
			s := fe.val(x.X)
			fe.oblige(st, "bounds", "", fmt.Sprintf("(and (<= 0 %s) (< %s (hv_strlen %s)))", i, i, s), x.Pos(), "string index in range")
			fe.setVal(x, fmt.Sprintf("(hv_strat %s %s)", s, i))
			fe.assume(st, fmt.Sprintf("(and (<= 0 %s) (< %s 256))", fe.vals[x], fe.vals[x]))
		}
	case *ssa.UnOp:
		fe.unop(x, st)
	case *ssa.BinOp:
		fe.binop(x, st)
	case *ssa.Store:
		a := fe.addrOf(st, x.Addr)
		if a.local == nil && len(a.path) == 0 {
			fe.nilCheck(st, a.ptr, x.Pos(), "store")
		}
		if a.leaf {
			fe.curTarget = a.baseVal
		}
		if key, ok := fe.cleanFieldKey(a); ok && fe.taintOn() {
			fe.oblige(st, "taint", key, "(sf_clean "+fe.val(x.Val)+")", x.Pos(), "diagnostic text "+key+" contains no string taken from a value")
		}
		if lock, key, ok := fe.guardOf(a); ok {
			fe.oblige(st, "guard", "write."+key, "(= "+fe.lockHeld(st, lock)+" 2)", x.Pos(), "guarded field "+key+" is written with its lock held exclusively")
		}
		fe.store(st, a, fe.val(x.Val))
		fe.curTarget = nil
	case *ssa.Slice:
		fe.sliceOp(x, st)
	case *ssa.MakeSlice:
		r := fe.newRef(st, "makeslice")
		l, c := fe.val(x.Len), fe.val(x.Cap)
		fe.oblige(st, "bounds", "", fmt.Sprintf("(and (<= 0 %s) (<= %s %s))", l, l, c), x.Pos(), "makeslice: 0 <= len <= cap")
		fe.assume(st, fmt.Sprintf("(and (= (hv_root %s) %s) (= (hv_offs %s) 0))", r, r, r))
		fe.setVal(x, fmt.Sprintf("(hv_mkslice %s %s %s)", r, l, c))
		fe.zeroElems(st, r, x.Type().Underlying().(*types.Slice).Elem(), c)
	case *ssa.MakeMap:
		r := fe.newRef(st, "makemap")
		fe.vals[x] = r
		mt := x.Type().Underlying().(*types.Map)
		has, _, ks, _ := fe.mapVars(mt)
		hs := "(Array Int (Array " + ks + " Bool))"
		h := fe.heapGet(st, has, hs)
		fe.heapSet(st, has, hs, fmt.Sprintf("(store %s %s ((as const (Array %s Bool)) false))", h, r, ks))
	case *ssa.MakeChan:
		fe.vals[x] = fe.newRef(st, "makechan")
	case *ssa.MakeInterface:
		t := x.X.Type()
		fe.setVal(x, fmt.Sprintf("(hv_mkiface %d %s)", fe.sorts().typeID(t), fe.sorts().box(t, fe.val(x.X))))
	case *ssa.MakeClosure:
		r := fe.newRef(st, "closure")
		fe.vals[x] = r
		fe.closures[r] = x
	case *ssa.ChangeType:
		fe.vals[x] = fe.val(x.X)
	case *ssa.ChangeInterface:
		fe.vals[x] = fe.val(x.X)
	case *ssa.Convert:
		fe.convert(x, st)
	case *ssa.MultiConvert, *ssa.SliceToArrayPointer:
		fe.freshVal(st, x.(ssa.Value))
	case *ssa.TypeAssert:
		fe.typeAssert(x, st)
	case *ssa.Extract:
		tup := fe.tups[x.Tuple]
		if tup == nil || x.Index >= len(tup) {
			fe.freshVal(st, x)
			return
		}
		fe.vals[x] = tup[x.Index]
	case *ssa.Lookup:
		fe.lookup(x, st)
	case *ssa.MapUpdate:
		mt := x.Map.Type().Underlying().(*types.Map)
		m := fe.val(x.Map)
		fe.oblige(st, "nil", "", "(not (= "+m+" 0))", x.Pos(), "assignment to entry in nil map")
		if lock, ok := fe.guardedVals[m]; ok {
			fe.oblige(st, "guard", "mapwrite", "(= "+fe.lockHeld(st, lock)+" 2)", x.Pos(), "guarded map is updated with its lock held exclusively")
		}
		fe.curTarget = x.Map
		fe.mapStore(st, mt, m, fe.val(x.Key), fe.val(x.Value), true)
		fe.curTarget = nil
	case *ssa.Range:
		r := fe.sc.declare("iter", sInt)
		fe.vals[x] = r
		fe.rangeOf[r] = x
		if mt, isMap := x.X.Type().Underlying().(*types.Map); isMap {
			// ghost set of keys already produced by this iteration
			key := "visited:" + x.Name()
			srt := "(Array " + fe.sorts().sortOf(mt.Key()) + " Bool)"
			fe.ghostSorts[key] = srt
			st.ghost[key] = fmt.Sprintf("((as const %s) false)", srt)
			fe.noteWrite("ghost:" + key)
		}
	case *ssa.Next:
		fe.next(x, st)
	case *ssa.Call:
		fe.call(x, x.Common(), st)
	case *ssa.Defer:
		fe.defers = append(fe.defers, x)
		fe.deferFlag[x] = st.pc
		fe.deferArgs[x] = fe.captureArgs(x.Common())
		key := fmt.Sprintf("defer:%d:%d", x.Block().Index, len(fe.defers))
		fe.deferKey[x] = key
		fe.ghostSorts[key] = sBool
		st.ghost[key] = "true"
	case *ssa.RunDefers:
		fe.runDefers(st)
	case *ssa.Go:
		fe.note("go statement: heap havocked")
		fe.havocAll(st, "go statement")
	case *ssa.Send:
		fe.havocAll(st, "channel send")
	case *ssa.Select:
		fe.havocAll(st, "select")
		fe.freshTuple(st, x)
	case *ssa.Return:
		fe.ret(x, st)
	case *ssa.Panic:
		if fe.c == nil || !fe.c.MayPanic {
			fe.oblige(st, "panic", "", "false", x.Pos(), "explicit panic is unreachable")
		}
	case *ssa.If, *ssa.Jump:
	default:
		fe.note("unsupported instruction %T", ins)
		if v, ok := ins.(ssa.Value); ok {
			fe.freshVal(st, v)
		}
		fe.havocAll(st, fmt.Sprintf("unsupported %T", ins))
	}
}

func (fe *FuncEnc) addrEscapes(x ssa.Value) bool {
	refs := x.Referrers()
	if refs == nil {
		return false
	}
	for _, r := range *refs {
		switch r := r.(type) {
		case *ssa.DebugRef, *ssa.UnOp, *ssa.FieldAddr, *ssa.IndexAddr:
		case *ssa.Store:
			if r.Val == x {
				return true
			}
		default:
			return true
		}
	}
	return false
}

func (fe *FuncEnc) taintOn() bool {
	c := fe.root().c
	return fe.sc.taint && c != nil && c.Taint
}

func fieldKey(t types.Type, field int) string {
	st, ok := t.Underlying().(*types.Struct)
	if !ok || field >= st.NumFields() {
		return ""
	}
	return typeLabel(t) + "." + st.Field(field).Name()
}

// repoStruct: a named struct type defined in the repository.
func (fe *FuncEnc) repoStruct(t types.Type) bool {
	n, ok := t.(*types.Named)
	if !ok {
		return false
	}
	_, isStruct := n.Underlying().(*types.Struct)
	if !isStruct || n.Obj().Pkg() == nil {
		return false
	}
	p := n.Obj().Pkg().Path()
	// (cty function parameter descriptions are application-defined names, not value content)
	// (cty function parameter descriptions and attribute-path steps are names, not value content)
	return strings.HasPrefix(p, repoModule) || (p == "github.com/zclconf/go-cty/cty/function" && n.Obj().Name() == "Parameter") || (p == "github.com/zclconf/go-cty/cty" && n.Obj().Name() == "GetAttrStep")
}

// cleanFieldKey: the stored-to location is a field declared with verif:cleanfield.
func (fe *FuncEnc) cleanFieldKey(a addr) (string, bool) {
	if !a.leaf || a.owner == nil || len(a.path) != 0 {
		return "", false
	}
	k := fieldKey(a.owner, a.field)
	return k, fe.eng.cs.CleanFields[k]
}

// sourceString: the loaded string lives in a field of a struct defined in the
// repository (syntax tree, schema, traversal, specification: program or
// configuration text, not value content) and is not declared dirty.
func (fe *FuncEnc) sourceString(a addr) bool {
	if a.leaf && a.owner != nil && len(a.path) == 0 {
		return fe.repoStruct(a.owner) && !fe.eng.cs.DirtyStrings[fieldKey(a.owner, a.field)]
	}
	if len(a.path) > 0 && a.rootTyp != nil {
		// string inside a plain-data struct value: judge by the innermost struct
		t := a.rootTyp
		for i, pe := range a.path {
			if pe.index != "" {
				at, ok := t.Underlying().(*types.Array)
				if !ok {
					return false
				}
				t = at.Elem()
				continue
			}
			stT, ok := t.Underlying().(*types.Struct)
			if !ok {
				return false
			}
			if i == len(a.path)-1 {
				return fe.repoStruct(t) && !fe.eng.cs.DirtyStrings[fieldKey(t, pe.field)]
			}
			t = stT.Field(pe.field).Type()
		}
	}
	return false
}

// guardOf returns the lock-address term guarding a leaf field access, if the
// field is declared guarded.
func (fe *FuncEnc) guardOf(a addr) (string, string, bool) {
	if !a.leaf || a.owner == nil {
		return "", "", false
	}
	n, ok := a.owner.(*types.Named)
	if !ok {
		return "", "", false
	}
	st := a.owner.Underlying().(*types.Struct)
	key := n.Obj().Name() + "." + st.Field(a.field).Name()
	lockField, ok := fe.eng.cs.Guarded[key]
	if !ok {
		return "", "", false
	}
	for i := 0; i < st.NumFields(); i++ {
		if st.Field(i).Name() == lockField {
			return fmt.Sprintf("(hv_sub %s %d)", a.ptr, fe.eng.subTag(typeLabel(a.owner), i)), key, true
		}
	}
	return "", "", false
}

func (fe *FuncEnc) lockHeld(st *State, lock string) string {
	g := fe.eng.cs.Ghosts["sync.RWMutex.held"]
	if g == nil {
		g = fe.eng.cs.Ghosts["RWMutex.held"]
	}
	if g == nil {
		fe.fail("verif:guarded needs ghost field sync.RWMutex.held")
	}
	h := fe.heapGet(st, ghostVar(g), arrSort(sInt))
	return fmt.Sprintf("(select %s %s)", h, lock)
}

// checkAddrUses records a note when an address that is only modelled
// structurally (no first-class pointer value) is used other than by loads,
// stores and further selection.
func (fe *FuncEnc) checkAddrUses(x ssa.Value, what string) {
	refs := x.Referrers()
	if refs == nil {
		return
	}
	for _, r := range *refs {
		switch r := r.(type) {
		case *ssa.DebugRef, *ssa.UnOp, *ssa.FieldAddr, *ssa.IndexAddr:
		case *ssa.Store:
			if r.Val == x {
				fe.note("address of %s is stored (pointer not modelled)", what)
			}
		default:
			fe.note("address of %s escapes (%T) (pointer not modelled)", what, r)
		}
	}
}

func fieldName(x *ssa.FieldAddr) string {
	st := x.X.Type().Underlying().(*types.Pointer).Elem().Underlying().(*types.Struct)
	return st.Field(x.Field).Name()
}

func (fe *FuncEnc) note(format string, args ...interface{}) {
	if fe.recording {
		return
	}
	s := fmt.Sprintf(format, args...)
	for _, n := range fe.notes {
		if n == s {
			return
		}
	}
	fe.notes = append(fe.notes, s)
}

// initGhost gives the ghost fields of a fresh object (and of its embedded
// struct values) their default values: empty set, 0, false.
func (fe *FuncEnc) initGhost(st *State, r string, t types.Type) {
	n, ok := t.(*types.Named)
	if ok {
		for key, g := range fe.eng.cs.Ghosts {
			_ = key
			if g.Type == n.Obj().Name() || (n.Obj().Pkg() != nil && g.Type == n.Obj().Pkg().Name()+"."+n.Obj().Name()) {
				def := "0"
				switch g.Sort {
				case "bool":
					def = "false"
				case "set":
					def = "((as const (Array Int Bool)) false)"
				}
				fe.storeLeaf(st, ghostVar(g), ghostSort(g), r, def)
			}
		}
	}
	if u, ok := t.Underlying().(*types.Struct); ok && !isValueLike(t) {
		for i := 0; i < u.NumFields(); i++ {
			if ft := u.Field(i).Type(); isStructVal(ft) {
				fe.initGhost(st, fmt.Sprintf("(hv_sub %s %d)", r, fe.eng.subTag(typeLabel(t), i)), ft)
			}
		}
	}
}

func (fe *FuncEnc) initZero(st *State, r string, t types.Type) {
	if isArrayVal(t) {
		at := t.Underlying().(*types.Array)
		if at.Len() <= 8 {
			for i := int64(0); i < at.Len(); i++ {
				fe.storeAt(st, fmt.Sprintf("(hv_elem %s %d)", r, i), at.Elem(), fe.sorts().zero(at.Elem()))
			}
			return
		}
		fe.zeroElems(st, r, at.Elem(), fmt.Sprint(at.Len()))
		return
	}
	fe.storeAt(st, r, t, fe.sorts().zero(t))
}

// zeroElems states that elements [0,n) of the fresh array r are zero.
func (fe *FuncEnc) zeroElems(st *State, r string, et types.Type, n string) {
	for _, c := range fe.eng.leafCells(et) {
		as := arrSort(c.sort)
		if !fe.recording && !fe.relevant[c.varName] {
			continue
		}
		old := fe.heapGetQuiet(st, c.varName, as)
		nv := fe.sc.declare(c.varName, as)
		fe.heapSorts[c.varName] = as
		fe.noteWrite(c.varName)
		st.heap[c.varName] = nv
		cell := c.addr("(hv_elem " + r + " i)")
		fe.sc.assertFor(nv, fmt.Sprintf("(forall ((x Int)) (! (=> (not (= (hv_base x) %s)) (= (select %s x) (select %s x))) :pattern ((select %s x))))", r, nv, old, nv))
		fe.sc.assertFor(nv, fmt.Sprintf("(forall ((i Int)) (! (= (select %s %s) %s) :pattern (%s)))", nv, cell, fe.sorts().zero(c.typ), "(select "+nv+" "+cell+")"))
	}
}

func (fe *FuncEnc) unop(x *ssa.UnOp, st *State) {
	switch x.Op {
	case token.MUL:
		a := fe.addrOf(st, x.X)
		if a.local == nil && len(a.path) == 0 {
			fe.nilCheck(st, a.ptr, x.Pos(), "load")
		}
		if lock, key, ok := fe.guardOf(a); ok {
			fe.oblige(st, "guard", "read."+key, "(not (= "+fe.lockHeld(st, lock)+" 0))", x.Pos(), "guarded field "+key+" is read with its lock held")
		}
		fe.loadTop = ""
		fe.setVal(x, fe.load(st, a))
		// assumed facts about package-level values of dependencies (verif-globalfact)
		if g, isG := x.X.(*ssa.Global); isG && g.Pkg != nil {
			for _, sf := range fe.eng.globalFacts[g.Pkg.Pkg.Path()+"."+g.Name()] {
				if e, err := parseCExpr(sf + "(gv)"); err == nil {
					env := &Env{fe: fe, st: st, old: st, vars: map[string]EV{"gv": {T: fe.vals[x], Typ: x.Type()}}, inOld: true}
					if fe.fn.Pkg != nil {
						env.pkg = fe.fn.Pkg.Pkg
					}
					fe.assume(st, fe.evalBool(env, e, "verif-globalfact "+g.Name()))
					if fe.usedAssumed != nil {
						fe.usedAssumed["assumed fact: "+sf+"("+g.Pkg.Pkg.Path()+"."+g.Name()+")"] = true
					}
				}
			}
		}
		if lock, _, ok := fe.guardOf(a); ok {
			fe.guardedVals[fe.vals[x]] = lock
		}
		if fe.sc.taint && isString(x.Type()) && fe.sourceString(a) {
			fe.assume(st, "(sf_clean "+fe.vals[x]+")")
		}
		if a.local == nil {
			if !(a.leaf || len(a.path) == 0) || isStructVal(a.rootTyp) {
				fe.loadTop = "" // composite loads read several versions
			}
			fe.assume(st, fe.typeFacts(st, fe.vals[x], x.Type()))
			fe.assume(st, fe.versionFact(fe.vals[x], x.Type()))
		}
		fe.loadTop, fe.loadAddr = "", ""
	case token.NOT:
		fe.setVal(x, not(fe.val(x.X)))
	case token.SUB:
		fe.setVal(x, fe.wrap("(- "+fe.val(x.X)+")", x.Type()))
	case token.XOR:
		fe.freshVal(st, x)
	case token.ARROW:
		fe.havocAll(st, "channel receive")
		if _, ok := x.Type().(*types.Tuple); ok {
			fe.freshTuple(st, x)
		} else {
			fe.freshVal(st, x)
		}
	default:
		fe.freshVal(st, x)
	}
}

func (fe *FuncEnc) freshTuple(st *State, v ssa.Value) {
	tt, ok := v.Type().(*types.Tuple)
	if !ok {
		return
	}
	var ts []string
	for i := 0; i < tt.Len(); i++ {
		t := fe.sc.declare(fmt.Sprintf("%s.%d", v.Name(), i), fe.sorts().sortOf(tt.At(i).Type()))
		fe.assume(st, fe.typeFacts(st, t, tt.At(i).Type()))
		ts = append(ts, t)
	}
	fe.tups[v] = ts
}

func unsignedBits(t types.Type) int {
	b, ok := t.Underlying().(*types.Basic)
	if !ok || b.Info()&types.IsUnsigned == 0 {
		return 0
	}
	switch b.Kind() {
	case types.Uint8:
		return 8
	case types.Uint16:
		return 16
	case types.Uint32:
		return 32
	}
	return 64
}

// wrap applies modular arithmetic for unsigned types.
func (fe *FuncEnc) wrap(term string, t types.Type) string {
	if n := unsignedBits(t); n > 0 {
		if n == 64 {
			return fmt.Sprintf("(mod %s 18446744073709551616)", term)
		}
		return fmt.Sprintf("(mod %s %d)", term, int64(1)<<uint(n))
	}
	return term
}

func isInt(t types.Type) bool {
	b, ok := t.Underlying().(*types.Basic)
	return ok && b.Info()&types.IsInteger != 0
}

func isFloat(t types.Type) bool {
	b, ok := t.Underlying().(*types.Basic)
	return ok && b.Info()&(types.IsFloat|types.IsComplex) != 0
}

func isString(t types.Type) bool {
	b, ok := t.Underlying().(*types.Basic)
	return ok && b.Info()&types.IsString != 0
}

func (fe *FuncEnc) binop(x *ssa.BinOp, st *State) {
	a, b := fe.val(x.X), fe.val(x.Y)
	xt := x.X.Type()
	if isFloat(xt) {
		fe.freshVal(st, x)
		return
	}
	switch x.Op {
	case token.ADD:
		if isString(xt) {
			fe.setVal(x, fmt.Sprintf("(hv_strcat %s %s)", a, b))
			return
		}
		fe.setVal(x, fe.wrap(fmt.Sprintf("(+ %s %s)", a, b), x.Type()))
	case token.SUB:
		fe.setVal(x, fe.wrap(fmt.Sprintf("(- %s %s)", a, b), x.Type()))
	case token.MUL:
		fe.setVal(x, fe.wrap(fmt.Sprintf("(* %s %s)", a, b), x.Type()))
	case token.QUO:
		fe.oblige(st, "div", "", "(not (= "+b+" 0))", x.Pos(), "division by zero")
		fe.setVal(x, fmt.Sprintf("(hv_div %s %s)", a, b))
	case token.REM:
		fe.oblige(st, "div", "", "(not (= "+b+" 0))", x.Pos(), "division by zero")
		fe.setVal(x, fmt.Sprintf("(hv_rem %s %s)", a, b))
	case token.AND, token.OR, token.XOR, token.SHL, token.SHR, token.AND_NOT:
		fn := map[token.Token]string{token.AND: "hv_bitand", token.OR: "hv_bitor", token.XOR: "hv_bitxor", token.SHL: "hv_shl", token.SHR: "hv_shr", token.AND_NOT: "hv_andnot"}[x.Op]
		fe.setVal(x, fmt.Sprintf("(%s %s %s)", fn, a, b))
		fe.assume(st, fe.typeFacts(st, fe.vals[x], x.Type()))
	case token.EQL, token.NEQ:
		if isString(xt) && isString(x.Y.Type()) {
			// string extensionality, instantiated for this comparison: two different strings differ
			// in length or at some index d (a fresh witness) - sound, and local to the two operands
			d := fe.sc.declare("strdiff", sInt)
			fe.assume(st, fmt.Sprintf("(or (= %s %s) (not (= (hv_strlen %s) (hv_strlen %s))) (and (<= 0 %s) (< %s (hv_strlen %s)) (not (= (hv_strat %s %s) (hv_strat %s %s)))))", a, b, a, b, d, d, a, a, d, b, d))
		}
		e := fe.equal(xt, x.Y.Type(), a, b)
		if x.Op == token.NEQ {
			e = not(e)
		}
		fe.setVal(x, e)
	case token.LSS, token.LEQ, token.GTR, token.GEQ:
		if isString(xt) {
			fe.freshVal(st, x)
			return
		}
		op := map[token.Token]string{token.LSS: "<", token.LEQ: "<=", token.GTR: ">", token.GEQ: ">="}[x.Op]
		fe.setVal(x, fmt.Sprintf("(%s %s %s)", op, a, b))
	default:
		fe.freshVal(st, x)
	}
}

// equal encodes Go's == for two operands.
func (fe *FuncEnc) equal(xt, yt types.Type, a, b string) string {
	_, xi := xt.Underlying().(*types.Interface)
	_, yi := yt.Underlying().(*types.Interface)
	if xi != yi {
		// comparison of an interface with a concrete value
		if xi {
			return fmt.Sprintf("(= %s (hv_mkiface %d %s))", a, fe.sorts().typeID(yt), fe.sorts().box(yt, b))
		}
		return fmt.Sprintf("(= (hv_mkiface %d %s) %s)", fe.sorts().typeID(xt), fe.sorts().box(xt, a), b)
	}
	if _, ok := xt.Underlying().(*types.Slice); ok {
		// only comparison with nil is legal
		if b == "hv_nilslice" {
			return "(= (hv_org " + a + ") 0)"
		}
		return "(= (hv_org " + b + ") 0)"
	}
	return eq(a, b)
}

func (fe *FuncEnc) sliceOp(x *ssa.Slice, st *State) {
	lo, hi, mx := "0", "", ""
	if x.Low != nil {
		lo = fe.val(x.Low)
	}
	if x.High != nil {
		hi = fe.val(x.High)
	}
	if x.Max != nil {
		mx = fe.val(x.Max)
	}
	switch xt := x.X.Type().Underlying().(type) {
	case *types.Slice:
		s := fe.val(x.X)
		if hi == "" {
			hi = "(hv_len " + s + ")"
		}
		limit := "(hv_cap " + s + ")"
		if mx != "" {
			fe.oblige(st, "bounds", "", fmt.Sprintf("(and (<= 0 %s) (<= %s %s) (<= %s %s) (<= %s %s))", lo, lo, hi, hi, mx, mx, limit), x.Pos(), "slice bounds in range")
		} else {
			fe.oblige(st, "bounds", "", fmt.Sprintf("(and (<= 0 %s) (<= %s %s) (<= %s %s))", lo, lo, hi, hi, limit), x.Pos(), "slice bounds in range")
			mx = limit
		}
		fe.setVal(x, fmt.Sprintf("(hv_mkslice %s (- %s %s) (- %s %s))", advOrg("(hv_org "+s+")", lo), hi, lo, mx, lo))
	case *types.Basic: // string
		s := fe.val(x.X)
		if hi == "" {
			hi = "(hv_strlen " + s + ")"
		}
		fe.oblige(st, "bounds", "", fmt.Sprintf("(and (<= 0 %s) (<= %s %s) (<= %s (hv_strlen %s)))", lo, lo, hi, hi, s), x.Pos(), "string slice bounds in range")
		fe.eng.sorts.extra("(declare-fun hv_substr (hv_Str Int Int) hv_Str)")
		fe.eng.sorts.extra("(assert (forall ((s hv_Str) (l Int) (h Int)) (! (=> (and (<= 0 l) (<= l h) (<= h (hv_strlen s))) (= (hv_strlen (hv_substr s l h)) (- h l))) :pattern ((hv_substr s l h)))))")
		fe.eng.sorts.extra("(assert (forall ((s hv_Str) (l Int) (h Int) (i Int)) (! (=> (and (<= 0 l) (<= 0 i) (< (+ l i) h) (<= h (hv_strlen s))) (= (hv_strat (hv_substr s l h) i) (hv_strat s (+ l i)))) :pattern ((hv_strat (hv_substr s l h) i)))))")
		fe.eng.sorts.extra("(assert (forall ((s hv_Str)) (! (= (hv_substr s 0 (hv_strlen s)) s) :pattern ((hv_substr s 0 (hv_strlen s))))))")
		fe.setVal(x, fmt.Sprintf("(hv_substr %s %s %s)", s, lo, hi))
	case *types.Pointer: // *array
		at := xt.Elem().Underlying().(*types.Array)
		p := fe.val(x.X)
		fe.nilCheck(st, p, x.Pos(), "slice of array pointer")
		n := fmt.Sprint(at.Len())
		if hi == "" {
			hi = n
		}
		if mx == "" {
			mx = n
		}
		fe.oblige(st, "bounds", "", fmt.Sprintf("(and (<= 0 %s) (<= %s %s) (<= %s %s) (<= %s %s))", lo, lo, hi, hi, mx, mx, n), x.Pos(), "slice bounds in range")
		fe.setVal(x, fmt.Sprintf("(hv_mkslice %s (- %s %s) (- %s %s))", advOrg(p, lo), hi, lo, mx, lo))
	default:
		fe.freshVal(st, x)
	}
}

func (fe *FuncEnc) convert(x *ssa.Convert, st *State) {
	from, to := x.X.Type(), x.Type()
	v := fe.val(x.X)
	switch {
	case isInt(from) && isInt(to):
		tb := to.Underlying().(*types.Basic)
		if n := unsignedBits(to); n > 0 {
			fe.setVal(x, fe.wrap(v, to))
			return
		}
		switch tb.Kind() {
		case types.Int8, types.Int16, types.Int32:
			// signed narrowing: value-preserving when in range, else opaque
			bits := map[types.BasicKind]uint{types.Int8: 7, types.Int16: 15, types.Int32: 31}[tb.Kind()]
			lim := int64(1) << bits
			r := fe.sc.declare(x.Name(), sInt)
			fe.vals[x] = r
			fe.assume(st, fmt.Sprintf("(and (<= (- %d) %s) (< %s %d) (=> (and (<= (- %d) %s) (< %s %d)) (= %s %s)))", lim, r, r, lim, lim, v, v, lim, r, v))
		default:
			fe.vals[x] = v
		}
	case isString(to) && isInt(from):
		fe.freshVal(st, x)
	case isString(to): // []byte / []rune -> string
		r := fe.freshVal(st, x)
		if sl, ok := from.Underlying().(*types.Slice); ok && isByte(sl.Elem()) {
			fe.assume(st, fmt.Sprintf("(= (hv_strlen %s) (hv_len %s))", r, v))
			h := fe.heapGet(st, fe.eng.memVar(sl.Elem()), arrSort(sInt))
			fe.assume(st, fmt.Sprintf("(forall ((i Int)) (! (=> (and (<= 0 i) (< i (hv_len %s))) (= (hv_strat %s i) (select %s (hv_elem (hv_org %s) i)))) :pattern ((hv_strat %s i))))", v, r, h, v, r))
		}
	case isString(from): // string -> []byte / []rune
		sl, ok := to.Underlying().(*types.Slice)
		if ok && isByte(sl.Elem()) {
			ref := fe.newRef(st, "bytes")
			n := "(hv_strlen " + v + ")"
			fe.assume(st, fmt.Sprintf("(and (= (hv_root %s) %s) (= (hv_offs %s) 0))", ref, ref, ref))
			fe.setVal(x, fmt.Sprintf("(hv_mkslice %s %s %s)", ref, n, n))
			mv := fe.eng.memVar(sl.Elem())
			as := arrSort(sInt)
			old := fe.heapGet(st, mv, as)
			nv := fe.sc.declare(mv, as)
			fe.noteWrite(mv)
			st.heap[mv] = nv
			fe.sc.assertFor(nv, fmt.Sprintf("(forall ((x Int)) (! (=> (not (= (hv_base x) %s)) (= (select %s x) (select %s x))) :pattern ((select %s x))))", ref, nv, old, nv))
			fe.sc.assertFor(nv, fmt.Sprintf("(forall ((i Int)) (! (=> (and (<= 0 i) (< i %s)) (= (select %s (hv_elem %s i)) (hv_strat %s i))) :pattern ((select %s (hv_elem %s i)))))", n, nv, ref, v, nv, ref))
			return
		}
		ref := fe.newRef(st, "runes")
		n := fe.sc.declare("runelen", sInt)
		fe.assume(st, fmt.Sprintf("(and (<= 0 %s) (<= %s (hv_strlen %s)))", n, n, v))
		fe.setVal(x, fmt.Sprintf("(hv_mkslice %s %s %s)", ref, n, n))
	default:
		if fe.sorts().sortOf(from) == fe.sorts().sortOf(to) && !isFloat(from) && !isFloat(to) {
			fe.vals[x] = v
		} else {
			fe.freshVal(st, x)
		}
	}
}

func isByte(t types.Type) bool {
	b, ok := t.Underlying().(*types.Basic)
	return ok && b.Kind() == types.Uint8
}

func (fe *FuncEnc) typeAssert(x *ssa.TypeAssert, st *State) {
	v := fe.val(x.X)
	var ok, res string
	if _, isIface := x.AssertedType.Underlying().(*types.Interface); isIface {
		id := fe.sorts().typeID(x.AssertedType)
		ok = fmt.Sprintf("(and (not (= (hv_tag %s) 0)) (hv_implements (hv_tag %s) %d))", v, v, id)
		// static knowledge: an interface value whose static type already satisfies the target
		if types.AssignableTo(x.X.Type(), x.AssertedType) {
			ok = fmt.Sprintf("(not (= (hv_tag %s) 0))", v)
		}
		res = v
	} else {
		id := fe.sorts().typeID(x.AssertedType)
		ok = fmt.Sprintf("(= (hv_tag %s) %d)", v, id)
		res = fe.sorts().unbox(x.AssertedType, "(hv_val "+v+")")
	}
	srt := fe.sorts().sortOf(x.AssertedType)
	if x.CommaOk {
		okT := fe.sc.define(x.Name()+".ok", sBool, ok)
		r := fe.sc.define(x.Name()+".v", srt, ite(okT, res, fe.sorts().zero(x.AssertedType)))
		fe.tups[x] = []string{r, okT}
		fe.assume(st, implies(okT, fe.typeFacts(st, r, x.AssertedType)))
		return
	}
	fe.oblige(st, "assert", "", ok, x.Pos(), "type assertion succeeds: "+typeLabel(x.AssertedType))
	fe.setVal(x, res)
	fe.assume(st, fe.typeFacts(st, fe.vals[x], x.AssertedType))
}

func (fe *FuncEnc) lookup(x *ssa.Lookup, st *State) {
	switch xt := x.X.Type().Underlying().(type) {
	case *types.Map:
		m, k := fe.val(x.X), fe.val(x.Index)
		if lock, ok := fe.guardedVals[m]; ok {
			fe.oblige(st, "guard", "mapread", "(not (= "+fe.lockHeld(st, lock)+" 0))", x.Pos(), "guarded map is read with its lock held")
		}
		has := fmt.Sprintf("(and (not (= %s 0)) (select %s %s))", m, fe.mapHasArr(st, xt, m), k)
		v := fmt.Sprintf("(select %s %s)", fe.mapValArr(st, xt, m), k)
		hasT := fe.sc.define(x.Name()+".ok", sBool, has)
		vT := fe.sc.define(x.Name()+".v", fe.sorts().sortOf(xt.Elem()), ite(hasT, v, fe.sorts().zero(xt.Elem())))
		fe.assume(st, fe.typeFacts(st, vT, xt.Elem()))
		if x.CommaOk {
			fe.tups[x] = []string{vT, hasT}
		} else {
			fe.vals[x] = vT
		}
	default: // string
		s, i := fe.val(x.X), fe.val(x.Index)
		fe.oblige(st, "bounds", "", fmt.Sprintf("(and (<= 0 %s) (< %s (hv_strlen %s)))", i, i, s), x.Pos(), "string index in range")
		fe.setVal(x, fmt.Sprintf("(hv_strat %s %s)", s, i))
		fe.assume(st, fmt.Sprintf("(and (<= 0 %s) (< %s 256))", fe.vals[x], fe.vals[x]))
	}
}

func (fe *FuncEnc) next(x *ssa.Next, st *State) {
	tt := x.Type().(*types.Tuple)
	ok := fe.sc.declare(x.Name()+".ok", sBool)
	kT, vT := tt.At(1).Type(), tt.At(2).Type()
	if r0 := fe.rangeOf[fe.val(x.Iter)]; r0 != nil {
		if mt0, isMap := r0.X.Type().Underlying().(*types.Map); isMap {
			// unused key/value variables have no type in the tuple: use the map's
			kT, vT = mt0.Key(), mt0.Elem()
		}
	}
	k := fe.sc.declare(x.Name()+".k", fe.sorts().sortOf(kT))
	v := fe.sc.declare(x.Name()+".v", fe.sorts().sortOf(vT))
	fe.tups[x] = []string{ok, k, v}
	rng := fe.rangeOf[fe.val(x.Iter)]
	if rng == nil {
		return
	}
	if x.IsString {
		s := fe.val(rng.X)
		fe.assume(st, implies(ok, fmt.Sprintf("(and (<= 0 %s) (< %s (hv_strlen %s)) (<= 0 %s) (<= %s 1114111))", k, k, s, v, v)))
		return
	}
	if mt, isMap := rng.X.Type().Underlying().(*types.Map); isMap {
		m := fe.val(rng.X)
		facts := []string{"(not (= " + m + " 0))", fmt.Sprintf("(select %s %s)", fe.mapHasArr(st, mt, m), k)}
		facts = append(facts, fmt.Sprintf("(= %s (select %s %s))", v, fe.mapValArr(st, mt, m), k))
		facts = append(facts, fe.typeFacts(st, v, mt.Elem()))
		facts = append(facts, fe.typeFacts(st, k, mt.Key()))
		key := "visited:" + rng.Name()
		if vis, okv := st.ghost[key]; okv {
			srt := fe.ghostSorts[key]
			ks := fe.sorts().sortOf(mt.Key())
			facts = append(facts, fmt.Sprintf("(not (select %s %s))", vis, k))
			fe.assume(st, implies(ok, and(facts...)))
			// when the iteration ends every entry still present has been produced
			// (not valid if the loop inserts into a map of this type: then skipped)
			if guard, can := fe.loopInsertGuard(x, mt, m); can {
				has := fe.mapHasArr(st, mt, m)
				fe.assume(st, implies(and(not(ok), guard), fmt.Sprintf("(forall ((k %s)) (! (=> (select %s k) (select %s k)) :pattern ((select %s k))))", ks, has, vis, has)))
			}
			nv := fe.sc.define("visited", srt, ite(ok, fmt.Sprintf("(store %s %s true)", vis, k), vis))
			st.ghost[key] = nv
			fe.noteWrite("ghost:" + key)
			return
		}
		fe.assume(st, implies(ok, and(facts...)))
	}
}

// loopInsertGuard returns the condition under which the "every remaining
// entry has been produced" fact holds at the end of a map iteration: no
// insertion into the iterated map happens inside the loop. Insertions into
// other maps of the same type are allowed provided they are provably
// different maps (the disequalities are returned as the guard). ok=false means
// the fact must not be assumed at all.
func (fe *FuncEnc) loopInsertGuard(x *ssa.Next, mt *types.Map, m string) (string, bool) {
	var guards []string
	for _, li := range fe.loops {
		if !li.blocks[x.Block()] {
			continue
		}
		for b := range li.blocks {
			for _, ins := range b.Instrs {
				switch y := ins.(type) {
				case *ssa.MapUpdate:
					if !types.Identical(y.Map.Type().Underlying(), mt) {
						continue
					}
					// the updated map must be a value computed before the loop
					switch d := y.Map.(type) {
					case *ssa.Parameter, *ssa.FreeVar:
					case ssa.Instruction:
						if li.blocks[d.Block()] {
							return "", false
						}
					default:
						return "", false
					}
					guards = append(guards, fmt.Sprintf("(not (= %s %s))", m, fe.val(y.Map)))
				case *ssa.Call:
					c := y.Common()
					if _, isBuiltin := c.Value.(*ssa.Builtin); isBuiltin {
						continue
					}
					if callee := c.StaticCallee(); callee != nil {
						if ct := fe.eng.contractFor(callee); ct != nil && (ct.Pure || (ct.HasAssigns && fe.assignsNoMaps(ct.Assigns, mt))) {
							continue
						}
						if fe.eng.isPureExternal(callee) {
							continue
						}
					} else if named, ok := c.Value.Type().(*types.Named); ok && !c.IsInvoke() && named.Obj().Pkg() != nil {
						// value of a named function type with a contract on the type
						if ct := fe.eng.cs.Funcs[named.Obj().Pkg().Path()+".("+named.Obj().Name()+").call"]; ct != nil && (ct.Pure || (ct.HasAssigns && fe.assignsNoMaps(ct.Assigns, mt))) {
							continue
						}
					} else if c.IsInvoke() {
						// interface method with a contract on the interface
						if named, ok := c.Value.Type().(*types.Named); ok && named.Obj().Pkg() != nil {
							key := named.Obj().Pkg().Path() + ".(" + typeLabelNoPkg(named) + ")." + c.Method.Name()
							if ct := fe.eng.cs.Funcs[key]; ct != nil && (ct.Pure || (ct.HasAssigns && fe.assignsNoMaps(ct.Assigns, mt))) {
								continue
							}
						}
					}
					if c.IsInvoke() && c.Method.Name() == "Error" && c.Signature().Params().Len() == 0 {
						continue // error.Error(): assumed to write nothing (A5)
					}
					if os.Getenv("VERIF_DEBUG_MAPLOOP") != "" {
						fmt.Fprintln(os.Stderr, "map loop exit fact dropped because of call:", y.String(), "in", fe.fnName())
					}
					return "", false // a call that may write maps
				}
			}
		}
	}
	return and(guards...), true
}

// assignsNoMaps: the write frame cannot change the contents of a map of type mt.
// Only mapof(m) (a specific map, type not known here) and allmaps(T.f) of the
// same map type can; plain identifiers (ghost variables), field and element
// locations and allof() write no map contents.
func (fe *FuncEnc) assignsNoMaps(as []CExpr, mt *types.Map) bool {
	for _, a := range as {
		c, ok := a.(*CCall)
		if !ok {
			continue
		}
		switch c.Fn {
		case "mapof":
			return false
		case "allmaps":
			same := true // unknown: assume the worst
			if len(c.Args) == 1 {
				if s, ok := c.Args[0].(*CSel); ok {
					tn := ""
					switch x := s.X.(type) {
					case *CIdent:
						tn = x.Name
					case *CSel:
						tn = x.Name
					}
					if t := fe.eng.lookupTypeAnywhere(tn); t != nil {
						if st, ok := t.Underlying().(*types.Struct); ok {
							for i := 0; i < st.NumFields(); i++ {
								if st.Field(i).Name() == s.Name {
									if ft, ok := st.Field(i).Type().Underlying().(*types.Map); ok && !types.Identical(ft, mt) {
										same = false
									}
								}
							}
						}
					}
				}
			}
			if same {
				return false
			}
		}
	}
	return true
}

func (fe *FuncEnc) ret(x *ssa.Return, st *State) {
	if fe.inlineDepth > 0 {
		return
	}
	var results []string
	for _, r := range x.Results {
		results = append(results, fe.val(r))
	}
	fe.checkPost(st, results, x.Pos())
}

func (fe *FuncEnc) checkPost(st *State, results []string, pos token.Pos) {
	fe.retStates = append(fe.retStates, st)
	if fe.c == nil {
		return
	}
	env := fe.envAt(st, nil)
	env.old = fe.entry
	fe.bindResults(env, fe.fn.Signature, fe.c, results)
	// ghost assignments (all right-hand sides are evaluated first)
	type gw struct {
		g    *GhostField
		addr string
		val  string
	}
	var writes []gw
	for _, gu := range fe.c.Ghost {
		env.where = gu.Where
		tgt := env.eval(gu.Target)
		if !tgt.Addr || tgt.Leaf == nil || tgt.Leaf.ghost == nil {
			fe.fail("%s: ghost assignment target %s is not a ghost field", gu.Where, gu.Target)
		}
		val := env.rvalue(env.eval(gu.Value))
		writes = append(writes, gw{tgt.Leaf.ghost, tgt.T, val.T})
	}
	for _, w := range writes {
		fe.storeLeaf(st, ghostVar(w.g), ghostSort(w.g), w.addr, w.val)
	}
	for _, en := range fe.c.Ensures {
		if en.AssumedOnly {
			continue
		}
		fe.oblige(st, "post", en.Label, fe.evalBool(env, en.Expr, en.Where), pos, "postcondition: "+en.Src)
	}
	if fe.c.HasAssigns && !fe.c.FrameAssumed {
		fe.checkFrame(st, pos)
	}
}

func (fe *FuncEnc) bindResults(env *Env, sig *types.Signature, c *FuncContract, results []string) {
	rs := sig.Results()
	for i := 0; i < rs.Len() && i < len(results); i++ {
		ev := EV{T: results[i], Typ: rs.At(i).Type()}
		if rs.Len() == 1 {
			env.vars["ret"] = ev
		}
		env.vars[fmt.Sprintf("ret%d", i)] = ev
		if n := rs.At(i).Name(); n != "" && n != "_" {
			if _, clash := env.vars[n]; !clash {
				env.vars[n] = ev
			}
		}
		if c != nil && i < len(c.Results) {
			env.vars[c.Results[i]] = ev
		}
	}
}

// frameFormula states that heap variable hv (current version cur) agrees with
// its entry value on every cell that existed at entry and is outside the
// function's assigns clause. Returns "" when the whole variable is assignable.
func (fe *FuncEnc) frameFormula(hv, cur string) string {
	if fe.frameLocs == nil {
		envOld := fe.envAt(fe.entry, nil)
		envOld.old = fe.entry
		fe.frameLocs = fe.assignLocs(envOld, fe.c.Assigns, fe.c.Where)
		if fe.frameLocs == nil {
			fe.frameLocs = []assignLoc{}
		}
	}
	old := fe.heapGet(fe.entry, hv, fe.heapSorts[hv])
	if cur == old {
		return ""
	}
	x := "frame_x"
	var excl []string
	for _, l := range fe.frameLocs {
		if l.hv != hv {
			continue
		}
		if l.all {
			return ""
		}
		if l.cond != "" {
			excl = append(excl, strings.ReplaceAll(l.cond, "%x%", x))
		} else {
			excl = append(excl, eq(x, l.addr))
		}
	}
	body := implies(and(fmt.Sprintf("(< 0 (hv_base %s))", x), fmt.Sprintf("(<= (hv_base %s) %s)", x, fe.entry.allocTop), not(or(excl...))), fmt.Sprintf("(= (select %s %s) (select %s %s))", cur, x, old, x))
	return fmt.Sprintf("(forall ((%s Int)) (! %s :pattern ((select %s %s))))", x, body, cur, x)
}

// checkFrame: every heap variable written by the function agrees with its
// entry value outside the declared assigns set (for cells that existed at entry).
func (fe *FuncEnc) checkFrame(st *State, pos token.Pos) {
	for _, hv := range sortedKeys(st.heap) {
		if !isHeapVarName(hv) {
			continue
		}
		if f := fe.frameFormula(hv, st.heap[hv]); f != "" {
			fe.oblige(st, "frame", hv, f, pos, "nothing outside the assigns clause is modified in "+hv)
		}
	}
}

func (fe *FuncEnc) captureArgs(c *ssa.CallCommon) []string {
	var out []string
	if c.IsInvoke() {
		out = append(out, fe.val(c.Value))
	}
	for _, a := range c.Args {
		out = append(out, fe.val(a))
	}
	return out
}

func (fe *FuncEnc) runDefers(st *State) {
	seen := map[*ssa.Defer]bool{}
	for i := len(fe.defers) - 1; i >= 0; i-- {
		d := fe.defers[i]
		if seen[d] {
			continue
		}
		seen[d] = true
		// The deferred call runs iff the Defer instruction was executed on this path.
		switch st.ghost[fe.deferKey[d]] {
		case "true":
			fe.callCommon(nil, d.Common(), st, fe.deferArgs[d], d.Pos())
		case "", "false":
			// not executed on this path
		default:
			fe.havocAll(st, "conditionally executed defer")
		}
	}
}
