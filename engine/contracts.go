package main

// Contract files: structured comments, one comment-only Go file per package
// in /repo (build tag verif), plus assumed contracts for dependencies under
// /verif/contracts/assumed.

import (
	"bufio"
	"fmt"
	"os"
	"path/filepath"
	"regexp"
	"strconv"
	"strings"
)

type Clause struct {
	AssumedOnly bool // postcondition assumed at call sites, not verified in the body
	FromLoopAll bool // a loopall clause: silently skipped at loops where it does not bind
	Label string
	Expr  CExpr
	Src   string
	Where string // file:line
}

type LoopSpec struct {
	Invs      []Clause
	Decreases *Clause
}

type GhostUpdate struct { // ghost assignment executed at every return of the function
	Target CExpr
	Value  CExpr
	Src    string
	Where  string
}

// GhostField is specification-only state attached to objects of a Go type.
type GhostField struct {
	Type  string // Go type name (unqualified or pkg.Name)
	Name  string
	Sort  string // int | bool | ref | set
	Where string
}

type FuncContract struct {
	Key        string // name relative to its package, e.g. scanString, (*node).Detach
	PkgPath    string
	External   bool // assumed contract (dependency or unreachable callee): never verified
	Requires   []Clause
	Ensures    []Clause
	Assigns    []CExpr
	FrameAssumed bool // the assigns clause is assumed, not checked in the body
	HasAssigns bool
	Pure       bool
	Inline     bool
	Trusted    bool // in-repo function whose contract is assumed, body not verified (listed in evidence)
	MayPanic   bool // explicit panics are part of the documented behaviour (not obligations)
	NoNilRecv  bool
	Loops      map[int]*LoopSpec
	Props      []string
	Unit       string
	Where      string
	Results    []string // names for results in ensures (default ret / ret0, ret1 ...)
	Fresh      bool
	Ghost      []GhostUpdate // ghost assignments executed at every return
	LoopAll    []Clause      // invariants that apply to every loop of the function
	AssumePreOf   []string // like AssumePre, for callees whose name contains one of these strings
	NoSafetyKinds map[string]bool // like NoSafety, for the listed obligation kinds only
	NoSafety   bool          // do not generate nil/bounds/assert/div/panic obligations (partial correctness of the stated clauses only)
	Template   bool          // verif:methods template, instantiated for every matching method
	Taint      bool          // generate diagnostic-content (taint) obligations
	AssumePre  bool          // preconditions of callees are assumed, not proved (they are another unit's concern)
	CallSites  []CallSiteSpec // assertions checked at every call of a named callee inside the function
}

// CallSiteSpec is "callsite <callee> <label>: expr": an assertion proved at every call (static,
// method or interface call) whose callee's name is Callee (the last component: function or method name). The expression may name the call's
// arguments (arg0 is the receiver of a method call) and the function's parameters and locals; a
// local denotes the value it has at the call (the nearest definition that dominates the call).
type fileCalls struct {
	PkgPath, File, Unit string
	Props               []string
	Spec                CallSiteSpec
}

type CallSiteSpec struct {
	Callee string
	Clause Clause
}

func (c *FuncContract) FullName() string {
	if c.External {
		return c.Key
	}
	return c.PkgPath + "." + c.Key
}

type Pred struct {
	Name   string
	Params []CVar
	Body   CExpr
	Where  string
	Opaque bool
}

type SpecFunc struct {
	Name   string
	Params []CVar
	Result string
}

type Axiom struct {
	Name string
	Expr CExpr
	Src  string
}

type ContractSet struct {
	Funcs     map[string]*FuncContract // by full name (pkgpath.Key)
	FuncOrder []string
	Preds     map[string]*Pred
	SpecFuncs map[string]*SpecFunc
	Axioms    []*Axiom
	Units     map[string][]string // unit -> props
	Files     []string
	Ghosts    map[string]*GhostField // "Type.field"
	Guarded   map[string]string      // "Type.field" -> lock field name (same struct)
	Templates []*FuncContract
	CleanFields map[string]bool   // "pkg.Type.field": stores must be clean strings (taint obligations)
	DirtyStrings map[string]bool  // "pkg.Type.field": string field whose content is NOT assumed to be source text
	TaintFiles  []taintScan
	FileCalls   []fileCalls // verif:filecalls: a callsite clause for every function defined in a file
}

type taintScan struct {
	PkgPath string
	Files   []string
	Unit    string
	Props   []string
}

func newContractSet() *ContractSet {
	return &ContractSet{Funcs: map[string]*FuncContract{}, Preds: map[string]*Pred{}, SpecFuncs: map[string]*SpecFunc{}, Units: map[string][]string{}, Ghosts: map[string]*GhostField{}, Guarded: map[string]string{}, CleanFields: map[string]bool{}, DirtyStrings: map[string]bool{}}
}

var (
	reDirective = regexp.MustCompile(`^//\s*verif:(\w+)\s*(.*)$`)
	reClause    = regexp.MustCompile(`^//@\s*(.*)$`)
	reCont      = regexp.MustCompile(`^//@\|\s*(.*)$`)
	reLabel     = regexp.MustCompile(`^([A-Za-z_][A-Za-z0-9_.\-]*):\s+(.*)$`)
	reSig       = regexp.MustCompile(`^([A-Za-z_][A-Za-z0-9_]*)\s*\(([^)]*)\)\s*([A-Za-z_*\[\]][A-Za-z0-9_.*\[\]]*)?\s*(=\s*(.*))?$`)
)

// loadContractFile parses one contract file. pkgPath is the import path of
// the package the file belongs to ("" for assumed-contract files, whose
// verif:func keys are full names).
func (cs *ContractSet) loadContractFile(path, pkgPath string) error {
	f, err := os.Open(path)
	if err != nil {
		return err
	}
	defer f.Close()
	cs.Files = append(cs.Files, path)
	sc := bufio.NewScanner(f)
	sc.Buffer(make([]byte, 1<<20), 1<<20)
	var cur *FuncContract
	curUnit := ""
	var curProps []string
	lineNo := 0

	type pending struct {
		kind  string // clause | pred | axiom
		text  string
		where string
	}
	var pend *pending
	var flushErr error
	flush := func() {
		if pend == nil {
			return
		}
		p := pend
		pend = nil
		var err error
		switch p.kind {
		case "clause":
			if cur == nil {
				err = fmt.Errorf("clause outside verif:func")
			} else {
				err = cs.addClause(cur, p.text, p.where)
			}
		case "pred":
			err = cs.addPred(p.text, p.where)
		case "axiom":
			err = cs.addAxiom(p.text, p.where)
		}
		if err != nil && flushErr == nil {
			flushErr = fmt.Errorf("%s: %v", p.where, err)
		}
	}

	for sc.Scan() {
		lineNo++
		line := strings.TrimSpace(sc.Text())
		where := fmt.Sprintf("%s:%d", filepath.Base(path), lineNo)
		if m := reCont.FindStringSubmatch(line); m != nil {
			if pend == nil {
				return fmt.Errorf("%s: continuation without clause", where)
			}
			pend.text += " " + m[1]
			continue
		}
		if m := reClause.FindStringSubmatch(line); m != nil {
			flush()
			pend = &pending{"clause", m[1], where}
			continue
		}
		if m := reDirective.FindStringSubmatch(line); m != nil {
			flush()
			arg := strings.TrimSpace(m[2])
			switch m[1] {
			case "unit":
				fs := strings.Fields(arg)
				if len(fs) == 0 {
					return fmt.Errorf("%s: verif:unit needs a name", where)
				}
				curUnit = fs[0]
				curProps = nil
				for _, f := range fs[1:] {
					if strings.HasPrefix(f, "props=") {
						curProps = strings.Split(strings.TrimPrefix(f, "props="), ",")
					}
				}
				cs.Units[curUnit] = curProps
			case "methods":
				fs := strings.Fields(arg)
				if len(fs) == 0 || !(strings.HasSuffix(fs[0], ".*") || strings.HasPrefix(fs[0], "*).")) {
					return fmt.Errorf("%s: verif:methods (*T).*", where)
				}
				cur = &FuncContract{Key: fs[0], PkgPath: pkgPath, Loops: map[int]*LoopSpec{}, Unit: curUnit, Props: curProps, Where: where, Template: true}
				cs.Templates = append(cs.Templates, cur)
			case "func", "extfunc":
				fs := strings.Fields(arg)
				if len(fs) == 0 {
					return fmt.Errorf("%s: verif:func needs a name", where)
				}
				cur = &FuncContract{Key: fs[0], PkgPath: pkgPath, Loops: map[int]*LoopSpec{}, Unit: curUnit, Props: curProps, Where: where}
				if m[1] == "extfunc" || pkgPath == "" {
					cur.External = true
				}
				full := cur.FullName()
				if _, dup := cs.Funcs[full]; dup {
					return fmt.Errorf("%s: duplicate contract for %s", where, full)
				}
				cs.Funcs[full] = cur
				cs.FuncOrder = append(cs.FuncOrder, full)
			case "pred":
				pend = &pending{"pred", arg, where}
			case "axiom":
				pend = &pending{"axiom", arg, where}
			case "ghostvar":
				fs := strings.Fields(arg)
				if len(fs) != 2 {
					return fmt.Errorf("%s: verif:ghostvar name sort", where)
				}
				cs.Ghosts["$global."+fs[0]] = &GhostField{Type: "$global", Name: fs[0], Sort: fs[1], Where: where}
			case "ghostfield":
				fs := strings.Fields(arg)
				if len(fs) != 2 || !strings.Contains(fs[0], ".") {
					return fmt.Errorf("%s: verif:ghostfield Type.name sort", where)
				}
				i := strings.LastIndex(fs[0], ".")
				cs.Ghosts[fs[0]] = &GhostField{Type: fs[0][:i], Name: fs[0][i+1:], Sort: fs[1], Where: where}
			case "cleanfield":
				for _, f := range strings.Fields(arg) {
					cs.CleanFields[f] = true
				}
			case "dirtystrings":
				for _, f := range strings.Fields(arg) {
					cs.DirtyStrings[f] = true
				}
			case "taintscan":
				cs.TaintFiles = append(cs.TaintFiles, taintScan{PkgPath: pkgPath, Files: strings.Fields(arg), Unit: curUnit, Props: curProps})
			case "filecalls":
				// verif:filecalls <file.go> <callee> <label>: <expr> - the callsite clause is given to
				// every function defined in the file (functions without a contract get an empty one)
				fs := strings.Fields(arg)
				if len(fs) < 3 {
					return fmt.Errorf("%s: verif:filecalls <file> <callee> <label>: <expr>", where)
				}
				rest := strings.TrimSpace(strings.TrimPrefix(strings.TrimSpace(strings.TrimPrefix(arg, fs[0])), fs[1]))
				m := reLabel.FindStringSubmatch(rest)
				if m == nil {
					return fmt.Errorf("%s: verif:filecalls needs a labelled expression", where)
				}
				e, err := parseCExpr(m[2])
				if err != nil {
					return fmt.Errorf("%s: %v", where, err)
				}
				cs.FileCalls = append(cs.FileCalls, fileCalls{PkgPath: pkgPath, File: fs[0], Unit: curUnit, Props: curProps,
					Spec: CallSiteSpec{Callee: fs[1], Clause: Clause{Label: m[1], Expr: e, Src: m[2], Where: where}}})
			case "guarded":
				fs := strings.Fields(arg)
				if len(fs) != 2 || !strings.Contains(fs[0], ".") {
					return fmt.Errorf("%s: verif:guarded Type.field lockField", where)
				}
				cs.Guarded[fs[0]] = fs[1]
			case "specfunc":
				if err := cs.addSpecFunc(arg); err != nil {
					return fmt.Errorf("%s: %v", where, err)
				}
			default:
				return fmt.Errorf("%s: unknown directive verif:%s", where, m[1])
			}
			continue
		}
		flush()
	}
	flush()
	if flushErr != nil {
		return flushErr
	}
	return sc.Err()
}

func parseParams(s string) ([]CVar, error) {
	var out []CVar
	s = strings.TrimSpace(s)
	if s == "" {
		return nil, nil
	}
	for _, p := range strings.Split(s, ",") {
		fs := strings.Fields(p)
		if len(fs) != 2 {
			return nil, fmt.Errorf("bad parameter %q", p)
		}
		out = append(out, CVar{fs[0], fs[1]})
	}
	return out, nil
}

func (cs *ContractSet) addPred(text, where string) error {
	opaque := false
	if strings.HasPrefix(text, "opaque ") {
		opaque = true
		text = strings.TrimPrefix(text, "opaque ")
	}
	m := reSig.FindStringSubmatch(text)
	if m == nil || m[5] == "" {
		return fmt.Errorf("bad predicate definition %q", text)
	}
	ps, err := parseParams(m[2])
	if err != nil {
		return err
	}
	body, err := parseCExpr(m[5])
	if err != nil {
		return err
	}
	if _, dup := cs.Preds[m[1]]; dup {
		return fmt.Errorf("duplicate predicate %s", m[1])
	}
	cs.Preds[m[1]] = &Pred{Name: m[1], Params: ps, Body: body, Where: where, Opaque: opaque}
	return nil
}

func (cs *ContractSet) addSpecFunc(text string) error {
	m := reSig.FindStringSubmatch(text)
	if m == nil || m[3] == "" {
		return fmt.Errorf("bad specfunc declaration %q", text)
	}
	ps, err := parseParams(m[2])
	if err != nil {
		return err
	}
	cs.SpecFuncs[m[1]] = &SpecFunc{Name: m[1], Params: ps, Result: m[3]}
	return nil
}

func (cs *ContractSet) addAxiom(text, where string) error {
	name := where
	if m := reLabel.FindStringSubmatch(text); m != nil {
		name, text = m[1], m[2]
	}
	e, err := parseCExpr(text)
	if err != nil {
		return err
	}
	cs.Axioms = append(cs.Axioms, &Axiom{Name: name, Expr: e, Src: text})
	return nil
}

func (cs *ContractSet) addClause(c *FuncContract, text, where string) error {
	fs := strings.Fields(text)
	if len(fs) == 0 {
		return nil
	}
	kw := fs[0]
	rest := strings.TrimSpace(strings.TrimPrefix(text, kw))
	mk := func(rest string, n int, kind string) (Clause, error) {
		label := fmt.Sprintf("%d", n)
		if m := reLabel.FindStringSubmatch(rest); m != nil && !strings.HasPrefix(m[2], ":") {
			label, rest = m[1], m[2]
		}
		e, err := parseCExpr(rest)
		if err != nil {
			return Clause{}, err
		}
		return Clause{Label: label, Expr: e, Src: rest, Where: where}, nil
	}
	switch kw {
	case "requires":
		cl, err := mk(rest, len(c.Requires), "pre")
		if err != nil {
			return err
		}
		c.Requires = append(c.Requires, cl)
	case "ensures":
		cl, err := mk(rest, len(c.Ensures), "post")
		if err != nil {
			return err
		}
		c.Ensures = append(c.Ensures, cl)
	case "callsite":
		f2 := strings.Fields(rest)
		if len(f2) < 2 {
			return fmt.Errorf("%s: callsite <callee> <label>: <expr>", where)
		}
		cl, err := mk(strings.TrimSpace(strings.TrimPrefix(rest, f2[0])), len(c.CallSites), "callsite")
		if err != nil {
			return err
		}
		c.CallSites = append(c.CallSites, CallSiteSpec{Callee: f2[0], Clause: cl})
	case "assumes":
		// a postcondition that callers may use but that is NOT verified against the body (a
		// definitional clause over an uninterpreted spec function); listed in the evidence
		cl, err := mk(rest, len(c.Ensures), "post")
		if err != nil {
			return err
		}
		cl.AssumedOnly = true
		c.Ensures = append(c.Ensures, cl)
	case "assumesassigns":
		// a write frame that callers may rely on but that is NOT verified against the body
		// (like a trusted function's frame, for a function whose other obligations are verified)
		c.FrameAssumed = true
		fallthrough
	case "assigns":
		c.HasAssigns = true
		if rest == "" || rest == "nothing" {
			return nil
		}
		es, err := parseCExprList(rest)
		if err != nil {
			return err
		}
		c.Assigns = append(c.Assigns, es...)
	case "ghost":
		i := strings.Index(rest, "=")
		if i < 0 {
			return fmt.Errorf("bad ghost assignment %q", rest)
		}
		lhs, err := parseCExpr(strings.TrimSpace(rest[:i]))
		if err != nil {
			return err
		}
		rhs, err := parseCExpr(strings.TrimSpace(rest[i+1:]))
		if err != nil {
			return err
		}
		c.Ghost = append(c.Ghost, GhostUpdate{Target: lhs, Value: rhs, Src: rest, Where: where})
	case "pure":
		c.Pure = true
		c.HasAssigns = true
	case "inline":
		c.Inline = true
	case "trusted":
		c.Trusted = true
	case "maypanic":
		c.MayPanic = true
	case "taint":
		// diagnostic-content (taint) obligations for this one function (cf. verif:taintscan for whole files)
		c.Taint = true
	case "nilrecv":
		c.NoNilRecv = true
	case "nosafety":
		// "nosafety" alone: no safety obligations at all; "nosafety nil div": only the listed
		// kinds are assumed away, the others (e.g. bounds, panic) are still generated
		if strings.TrimSpace(rest) == "" {
			c.NoSafety = true
		} else {
			if c.NoSafetyKinds == nil {
				c.NoSafetyKinds = map[string]bool{}
			}
			for _, k := range strings.Fields(strings.ReplaceAll(rest, ",", " ")) {
				c.NoSafetyKinds[k] = true
			}
		}
	case "assumepre":
		// "assumepre" alone: every callee precondition is assumed; "assumepre A B": only those of
		// callees whose name contains A or B
		if strings.TrimSpace(rest) == "" {
			c.AssumePre = true
		} else {
			c.AssumePreOf = append(c.AssumePreOf, strings.Fields(rest)...)
		}
	case "results":
		c.Results = strings.Fields(strings.ReplaceAll(rest, ",", " "))
	case "props":
		c.Props = strings.Fields(strings.ReplaceAll(rest, ",", " "))
	case "loopall":
		if len(fs) < 3 || fs[1] != "invariant" {
			return fmt.Errorf("bad loopall clause %q", text)
		}
		cl, err := mk(strings.TrimSpace(strings.TrimPrefix(rest, "invariant")), len(c.LoopAll), "inv")
		if err != nil {
			return err
		}
		cl.Label = "all" + cl.Label
		c.LoopAll = append(c.LoopAll, cl)
	case "loop":
		if len(fs) < 3 {
			return fmt.Errorf("bad loop clause %q", text)
		}
		n, err := strconv.Atoi(fs[1])
		if err != nil {
			return fmt.Errorf("bad loop ordinal in %q", text)
		}
		ls := c.Loops[n]
		if ls == nil {
			ls = &LoopSpec{}
			c.Loops[n] = ls
		}
		rest2 := strings.TrimSpace(strings.TrimPrefix(strings.TrimSpace(strings.TrimPrefix(rest, fs[1])), fs[2]))
		switch fs[2] {
		case "invariant":
			cl, err := mk(rest2, len(ls.Invs), "inv")
			if err != nil {
				return err
			}
			ls.Invs = append(ls.Invs, cl)
		case "decreases":
			cl, err := mk(rest2, 0, "decr")
			if err != nil {
				return err
			}
			ls.Decreases = &cl
		default:
			return fmt.Errorf("unknown loop clause %q", fs[2])
		}
	default:
		return fmt.Errorf("unknown clause keyword %q", kw)
	}
	return nil
}
