package main

import (
	"os/exec"
	"bytes"
	"context"
	"flag"
	"fmt"
	"os"
	"regexp"
	"runtime"
	"sort"
	"strings"
	"sync"
	"time"
)

var vacuityAudit bool
var usedAssumedMu sync.Mutex

var symRe = regexp.MustCompile(`\|[^|]+\|`)

// Query builds the SMT-LIB text of the obligation: prelude, the cone of
// influence of the path condition and goal within the script prefix, and the
// negated goal.
func (o *Obligation) Query() string { return o.queryFor(o.PC, o.Goal) }

// queryFor builds the query "pc => goal" in the obligation's context.
func (o *Obligation) queryFor(pc, goal string) string {
	lines := o.fe.sc.lines[:o.Prefix]
	need := map[string]bool{}
	addSyms := func(t string) bool {
		ch := false
		for _, m := range symRe.FindAllString(t, -1) {
			if !need[m] {
				need[m] = true
				ch = true
			}
		}
		return ch
	}
	addSyms(pc)
	addSyms(goal)
	include := make([]bool, len(lines))
	for changed := true; changed; {
		changed = false
		for i := len(lines) - 1; i >= 0; i-- {
			if include[i] {
				continue
			}
			l := lines[i]
			switch {
			case strings.HasPrefix(l, "(declare-fun ") || strings.HasPrefix(l, "(define-fun "):
				m := symRe.FindString(l)
				if m == "" || need[m] {
					include[i] = true
					if addSyms(l) {
						changed = true
					}
				}
			case strings.HasPrefix(l, "(assert "):
				if j := strings.LastIndex(l, ";owner "); j >= 0 {
					if need[strings.TrimSpace(l[j+7:])] {
						include[i] = true
						if addSyms(l[:j]) {
							changed = true
						}
					}
				} else {
					include[i] = true
					if addSyms(l) {
						changed = true
					}
				}
			default:
				include[i] = true
			}
		}
	}
	var b strings.Builder
	for i, l := range lines {
		if include[i] {
			if j := strings.LastIndex(l, ";owner "); j >= 0 {
				l = l[:j]
			}
			b.WriteString(l)
			b.WriteByte('\n')
		}
	}
	tail := "(assert " + pc + ")\n(assert " + not(goal) + ")\n(check-sat)\n"
	body := b.String()
	// spec-function axioms: only those whose functions are mentioned
	used := map[int]bool{}
	var ax strings.Builder
	for changed := true; changed; {
		changed = false
		for i, a := range o.fe.root().axioms {
			if used[i] {
				continue
			}
			for _, sym := range a.syms {
				if strings.Contains(body, sym) || strings.Contains(tail, sym) || strings.Contains(ax.String(), sym) {
					used[i] = true
					ax.WriteString(a.text + "\n")
					changed = true
					break
				}
			}
		}
	}
	// (queries of one function are built concurrently: the bookkeeping map is shared)
	usedAssumedMu.Lock()
	for i, a := range o.fe.root().axioms {
		if used[i] {
			o.fe.root().usedAssumed["axiom "+a.name] = true
		}
	}
	usedAssumedMu.Unlock()
	full := body + ax.String() + tail
	return o.fe.eng.sorts.prelude(full) + full
}

func (fe *FuncEnc) root() *FuncEnc {
	for fe.inlineParent != nil {
		fe = fe.inlineParent
	}
	return fe
}

type OblResult struct {
	O   *Obligation
	R   SolveResult
	OK  bool
}

func dischargeAll(obls []*Obligation, timeoutS, seed int, cross bool, workers int) []OblResult {
	res := make([]OblResult, len(obls))
	var wg sync.WaitGroup
	sem := make(chan struct{}, workers)
	for i, o := range obls {
		wg.Add(1)
		sem <- struct{}{}
		go func(i int, o *Obligation) {
			defer wg.Done()
			defer func() { <-sem }()
			var r SolveResult
			if o.Expect == "sat" {
				// vacuity probe: fails only when the path condition is refuted
				r = runSolver(context.Background(), solvers[0], o.Query(), 1, seed)
				res[i] = OblResult{O: o, R: r, OK: r.Status != "unsat" && r.Status != "error"}
				return
			}
			r = solveObligation(o, timeoutS, seed, cross)
			res[i] = OblResult{O: o, R: r, OK: r.Status == o.Expect}
			// Functions verified under assumed callee preconditions: a discharged
			// postcondition only counts if its path condition is not itself refutable
			// (otherwise the "proof" is vacuous).
			if res[i].OK && o.Kind == "post" && o.fe.root().c != nil && (o.fe.root().c.AssumePre || len(o.fe.root().c.AssumePreOf) > 0 || vacuityAudit) {
				vr := solve(o.queryFor(o.PC, "false"), 3, seed, false)
				if vr.Status == "unsat" {
					res[i].OK = false
					res[i].R = SolveResult{Status: "vacuous", Solver: vr.Solver, Seconds: r.Seconds + vr.Seconds, Output: "the path condition of this obligation is contradictory (assumed callee preconditions or trusted postconditions conflict): the proof would be vacuous"}
				}
			}
		}(i, o)
	}
	wg.Wait()
	return res
}

// solveObligation discharges one obligation. A conjunctive goal that does not
// go through as a whole is retried conjunct by conjunct, each under the
// assumption of the earlier ones (stepping stones for the solver).
func solveObligation(o *Obligation, timeoutS, seed int, cross bool) SolveResult {
	r := solve(o.Query(), timeoutS, seed, cross)
	if r.Status == "unsat" || r.Status == "sat" || r.Status == "error" {
		return r
	}
	parts := splitAnd(o.Goal)
	if len(parts) < 2 {
		return r
	}
	total := r.Seconds
	var assumed []string
	for _, p := range parts {
		pr := solve(o.queryFor(and(append([]string{o.PC}, assumed...)...), p), timeoutS, seed, cross)
		total += pr.Seconds
		if pr.Status != "unsat" {
			pr.Seconds = total
			pr.Output = "conjunct " + fmt.Sprint(len(assumed)+1) + " of " + fmt.Sprint(len(parts)) + ": " + pr.Output
			return pr
		}
		assumed = append(assumed, p)
	}
	return SolveResult{Status: "unsat", Solver: "split(" + fmt.Sprint(len(parts)) + ")", Seconds: total}
}

func main() {
	if len(os.Args) < 2 {
		fmt.Fprintln(os.Stderr, "usage: hclverif <verify|dump|loops|check|replay> ...")
		os.Exit(2)
	}
	defer cleanupScratch()
	switch os.Args[1] {
	case "verify", "dump", "loops":
		cmdVerify(os.Args[1], os.Args[2:])
	case "check":
		if os.Getenv("VERIF_CHECK_CHILD") == "" {
			os.Exit(superviseCheck())
		}
		code := cmdCheck(os.Args[2:])
		cleanupScratch()
		os.Exit(code)
	case "replay":
		code := cmdReplay(os.Args[2:])
		cleanupScratch()
		os.Exit(code)
	default:
		fmt.Fprintln(os.Stderr, "unknown command", os.Args[1])
		os.Exit(2)
	}
}

// superviseCheck runs the check in a child process and relays its output. If the
// child dies from a Go runtime failure (a crash of the checker itself, not a
// verdict), nothing it printed is relayed and it is run again, at most twice:
// a verdict is only ever reported by a run that completed.
func superviseCheck() int {
	self, err := os.Executable()
	if err != nil {
		self = os.Args[0]
	}
	for attempt := 1; ; attempt++ {
		cmd := exec.Command(self, os.Args[1:]...)
		cmd.Env = append(os.Environ(), "VERIF_CHECK_CHILD=1")
		var out, errb bytes.Buffer
		cmd.Stdout = &out
		cmd.Stderr = &errb
		cmd.Stdin = os.Stdin
		runErr := cmd.Run()
		code := 0
		if ee, ok := runErr.(*exec.ExitError); ok {
			code = ee.ExitCode()
		} else if runErr != nil {
			code = 2
		}
		crashed := code != 0 && code != 1 && (strings.Contains(errb.String(), "goroutine ") && (strings.Contains(errb.String(), "fatal error:") || strings.Contains(errb.String(), "panic:")) || code < 0)
		if crashed && attempt < 3 {
			fmt.Fprintf(os.Stderr, "hclverif: the checker process failed (attempt %d), running it again\n", attempt)
			continue
		}
		os.Stdout.Write(out.Bytes())
		os.Stderr.Write(errb.Bytes())
		return code
	}
}

func cmdVerify(mode string, args []string) {
	fs := flag.NewFlagSet(mode, flag.ExitOnError)
	repo := fs.String("repo", "/repo", "repository")
	verif := fs.String("verif", "/verif", "verif dir")
	pkgs := fs.String("pkgs", "./...", "package patterns (comma separated)")
	fnRe := fs.String("func", "", "regexp on function names")
	oblRe := fs.String("obl", "", "regexp on obligation names")
	timeout := fs.Int("timeout", 10, "solver timeout (s)")
	verbose := fs.Bool("v", false, "verbose")
	showFail := fs.Bool("fail", true, "print failing obligations")
	sweep := fs.String("sweep", "", "exploration only: give every function of the packages matching this regexp that has no contract an empty one (safety obligations only)")
	vacAudit := fs.Bool("vacuity", false, "also try to refute the path condition of every discharged postcondition (vacuous proofs)")
	fs.Parse(args)
	t0 := time.Now()
	eng := newEngine(*repo, *verif)
	if err := eng.Load(strings.Split(*pkgs, ",")); err != nil {
		fmt.Fprintln(os.Stderr, "ERROR", err)
		os.Exit(2)
	}
	fmt.Fprintf(os.Stderr, "loaded in %.1fs\n", time.Since(t0).Seconds())
	var re, ore *regexp.Regexp
	if *fnRe != "" {
		re = regexp.MustCompile(*fnRe)
	}
	if *oblRe != "" {
		ore = regexp.MustCompile(*oblRe)
	}
	if *sweep != "" {
		sre := regexp.MustCompile(*sweep)
		var names []string
		for n, fn := range eng.fnByName {
			if fn.Pkg == nil || !sre.MatchString(fn.Pkg.Pkg.Path()) || len(fn.Blocks) == 0 || fn.Synthetic != "" {
				continue
			}
			if _, has := eng.cs.Funcs[n]; has {
				continue
			}
			names = append(names, n)
		}
		sort.Strings(names)
		for _, n := range names {
			fn := eng.fnByName[n]
			key := strings.TrimPrefix(n, fn.Pkg.Pkg.Path()+".")
			eng.cs.Funcs[n] = &FuncContract{Key: key, PkgPath: fn.Pkg.Pkg.Path(), Loops: map[int]*LoopSpec{}, Unit: "sweep", Where: "sweep"}
			eng.cs.FuncOrder = append(eng.cs.FuncOrder, n)
		}
	}
	var all []*Obligation
	for _, c := range eng.functionsUnderContract() {
		if re != nil && !re.MatchString(c.FullName()) {
			continue
		}
		fn := eng.fnByName[c.FullName()]
		if fn == nil {
			fmt.Printf("ERROR unbound contract %s (%s)\n", c.FullName(), c.Where)
			continue
		}
		fe := eng.newFuncEnc(fn, c)
		if mode == "loops" {
			fe.analyseLocals()
			fe.findLoops()
			fmt.Printf("%s\n", fe.fnName())
			var hs []*loopInfo
			for _, li := range fe.loops {
				hs = append(hs, li)
			}
			sort.Slice(hs, func(i, j int) bool { return hs[i].ordinal < hs[j].ordinal })
			for _, li := range hs {
				fmt.Printf("  loop %d: block %d (%s) at %s\n", li.ordinal, li.header.Index, li.header.Comment, fe.pos(li.header.Instrs[0].Pos()))
			}
			continue
		}
		if err := fe.Encode(); err != nil {
			fmt.Printf("ERROR %v\n", err)
			continue
		}
		for _, n := range fe.notes {
			fmt.Fprintf(os.Stderr, "NOTE %s: %s\n", fe.fnName(), n)
		}
		if *verbose {
			for _, h := range fe.havocs {
				fmt.Printf("HAVOC %s: %s\n", fe.fnName(), h)
			}
		}
		for _, o := range fe.obls {
			if ore != nil && !ore.MatchString(o.Name) {
				continue
			}
			all = append(all, o)
		}
	}
	if mode == "loops" {
		return
	}
	if mode == "dump" {
		for _, o := range all {
			fmt.Printf("; ===== %s (%s) %s\n%s\n", o.Name, o.Pos, o.Descr, o.Query())
		}
		return
	}
	vacuityAudit = *vacAudit
	res := dischargeAll(all, *timeout, 0, false, runtime.NumCPU()-2)
	ok := 0
	var solverTime float64
	for _, r := range res {
		solverTime += r.R.Seconds
		if r.OK {
			ok++
			if *verbose {
				fmt.Printf("ok    %-70s %s %.2fs\n", r.O.Name, r.R.Solver, r.R.Seconds)
			}
		} else if *showFail {
			fmt.Printf("FAIL  %-70s %s (%s %.2fs) %s -- %s\n", r.O.Name, r.R.Status, r.R.Solver, r.R.Seconds, r.O.Pos, r.O.Descr)
			if r.R.Status == "error" || *verbose {
				fmt.Println(indent(r.R.Output))
			}
		}
	}
	fmt.Printf("%d/%d obligations discharged, solver time %.1fs, wall %.1fs\n", ok, len(res), solverTime, time.Since(t0).Seconds())
}

func indent(s string) string {
	return "      " + strings.ReplaceAll(strings.TrimSpace(s), "\n", "\n      ")
}

