package main

import (
	"bufio"
	"encoding/json"
	"flag"
	"fmt"
	"os"
	"path/filepath"
	"regexp"
	"runtime"
	"sort"
	"strconv"
	"strings"
	"sync"
	"time"
)

// Baseline: which obligations are claimed (must discharge) and which are
// known not to discharge on the unchanged tree (reported, never claimed).
type Baseline struct {
	Claimed map[string]bool
	Open    map[string]string
}

func loadBaseline(path string) (*Baseline, error) {
	b := &Baseline{Claimed: map[string]bool{}, Open: map[string]string{}}
	f, err := os.Open(path)
	if err != nil {
		if os.IsNotExist(err) {
			return b, nil
		}
		return nil, err
	}
	defer f.Close()
	sc := bufio.NewScanner(f)
	for sc.Scan() {
		fs := strings.Fields(sc.Text())
		if len(fs) < 2 || strings.HasPrefix(fs[0], "#") {
			continue
		}
		switch fs[0] {
		case "claimed":
			b.Claimed[fs[1]] = true
		case "open":
			b.Open[fs[1]] = strings.Join(fs[2:], " ")
		}
	}
	return b, sc.Err()
}

type KnownFinding struct {
	Status     string // open | fixed
	Property   string
	Obligation string
	Input      string // regexp over the failing input reported by a bounded stand-in
	Sites      int    // number of call/return sites at which the named obligation is known to fail (0: any)
	Text       string
}

func loadKnownFindings(path string) []KnownFinding {
	var out []KnownFinding
	data, err := os.ReadFile(path)
	if err != nil {
		return nil
	}
	for _, line := range strings.Split(string(data), "\n") {
		line = strings.TrimSpace(line)
		if line == "" || strings.HasPrefix(line, "#") {
			continue
		}
		k := KnownFinding{}
		switch {
		case strings.HasPrefix(line, "open:"):
			k.Status = "open"
			line = strings.TrimSpace(strings.TrimPrefix(line, "open:"))
		case strings.HasPrefix(line, "fixed:"):
			k.Status = "fixed"
			line = strings.TrimSpace(strings.TrimPrefix(line, "fixed:"))
		default:
			continue
		}
		for _, f := range strings.Fields(line) {
			if strings.HasPrefix(f, "property=") {
				k.Property = strings.TrimPrefix(f, "property=")
			}
			if strings.HasPrefix(f, "obligation=") {
				k.Obligation = strings.TrimPrefix(f, "obligation=")
			}
			if strings.HasPrefix(f, "input=") {
				k.Input = strings.TrimPrefix(f, "input=")
			}
			if strings.HasPrefix(f, "sites=") {
				k.Sites, _ = strconv.Atoi(strings.TrimPrefix(f, "sites="))
			}
		}
		k.Text = line
		out = append(out, k)
	}
	return out
}

type Evidence struct {
	PropertyID  string                 `json:"property_id"`
	Tier        string                 `json:"tier"`
	Seed        int                    `json:"seed"`
	Level       string                 `json:"level"`
	Coverage    map[string]interface{} `json:"coverage"`
	Assumptions []string               `json:"assumptions"`
	WallS       float64                `json:"wall_s"`
	Violations  int                    `json:"violations"`
}

var standingAssumptions = []string{
	"A1: int/int64 are mathematical integers (no overflow obligations); unsigned and byte arithmetic is modular",
	"A2: go/ssa (x/tools v0.29.0) lowering agrees with the Go compiler",
	"A3: assumed contracts of dependencies (files under /verif/contracts/assumed) hold",
	"A7: no pointer to a scalar field or into a plain-data struct value is passed to a function under contract (checked per verified function, reported as NOTE)",
	"A8: closed world for calls without a contract (writes only what is type-reachable from the arguments and from closures / interface values created in the repository)",
	"A9: interface-level contracts are trusted, not verified against their implementations (listed under trusted_base when used)",
	"A12: bytes.*, strings.*, fmt.Sprintf/Errorf, strconv.*, unicode.* write no memory visible to the verified code",
	"termination is proved only where a decreases clause is given; stack depth and memory exhaustion are outside every claim",
	"partial claim: only the lemmas named in MANIFEST level_note / DESIGN.md section 6 are proved, not the whole property",
}

func cmdCheck(args []string) int {
	fs := flag.NewFlagSet("check", flag.ExitOnError)
	repo := fs.String("repo", "/repo", "repository")
	verif := fs.String("verif", "/verif", "verif dir")
	tier := fs.String("tier", "", "quick|thorough")
	writeBaseline := fs.Bool("write-baseline", false, "rewrite baseline entries of the selected functions")
	noEvidence := fs.Bool("no-evidence", false, "do not write the evidence file")
	verbose := fs.Bool("v", false, "verbose")
	if len(args) == 0 {
		fmt.Fprintln(os.Stderr, "usage: hclverif check <property> [--tier quick|thorough]")
		return 2
	}
	prop := args[0]
	fs.Parse(args[1:])
	if *tier == "" {
		*tier = os.Getenv("VERIF_TIER")
	}
	if *tier == "" {
		*tier = "quick"
	}
	seed := 0
	if s := os.Getenv("VERIF_SEED"); s != "" {
		seed, _ = strconv.Atoi(s)
	}
	t0 := time.Now()
	eng := newEngine(*repo, *verif)
	if err := eng.Load([]string{"./..."}); err != nil {
		fmt.Println("ERROR loading repository:", err)
		return 2
	}
	loadS := time.Since(t0).Seconds()
	base, err := loadBaseline(filepath.Join(*verif, "baseline", "obligations.txt"))
	if err != nil {
		fmt.Println("ERROR", err)
		return 2
	}
	known := loadKnownFindings(filepath.Join(*verif, "known_findings.txt"))
	replayKnown, replayProp = known, prop

	// functions serving this property
	var funcs []*FuncContract
	for _, c := range eng.functionsUnderContract() {
		for _, p := range c.Props {
			if p == prop || prop == "ALL" {
				funcs = append(funcs, c)
				break
			}
		}
	}
	if len(funcs) == 0 {
		fmt.Printf("ERROR no function under contract serves property %s\n", prop)
		return 2
	}
	exit := 0
	var all []*Obligation
	fnNames := []string{}
	trusted := map[string]bool{}
	var notes []string
	units := map[string]bool{}
	encoders := map[string]*FuncEnc{}
	for _, c := range funcs {
		fn := eng.fnByName[c.FullName()]
		if fn == nil {
			fmt.Printf("ERROR unbound contract %s (%s): no such function in the current tree\n", c.FullName(), c.Where)
			exit = 2
			continue
		}
		fe := eng.newFuncEnc(fn, c)
		if err := fe.Encode(); err != nil {
			fmt.Printf("ERROR cannot generate conditions: %v\n", err)
			exit = 2
			continue
		}
		encoders[fe.fnName()] = fe
		fnNames = append(fnNames, fe.fnName())
		units[c.Unit] = true
		for a := range fe.usedAssumed {
			trusted[a] = true
		}
		for _, n := range fe.notes {
			notes = append(notes, fe.fnName()+": "+n)
		}
		for _, en := range c.Ensures {
			if en.AssumedOnly {
				notes = append(notes, fe.fnName()+": postcondition assumed, not verified against the body: "+en.Src)
			}
		}
		if c.FrameAssumed {
			notes = append(notes, fe.fnName()+": write frame (assigns clause) assumed, not verified against the body")
		}
		if c.AssumePre {
			notes = append(notes, fe.fnName()+": the preconditions of its callees are assumed, not proved (assumepre)")
		} else if len(c.AssumePreOf) > 0 {
			notes = append(notes, fe.fnName()+": the preconditions of these callees are assumed, not proved: "+strings.Join(c.AssumePreOf, ", "))
		}
		if c.NoSafety {
			notes = append(notes, fe.fnName()+": partial correctness only (no nil/bounds/div/panic obligations: executions that panic are not considered)")
		} else if len(c.NoSafetyKinds) > 0 {
			var ks []string
			for k := range c.NoSafetyKinds {
				ks = append(ks, k)
			}
			sort.Strings(ks)
			notes = append(notes, fe.fnName()+": obligations of these kinds are assumed away: "+strings.Join(ks, ", "))
		}
		for _, h := range fe.havocs {
			if strings.Contains(h, "no contract") {
				trusted["havoc: "+h] = true
			}
		}
		all = append(all, fe.obls...)
	}
	// A contract that no longer binds (function, parameter or local renamed, signature changed)
	// is a check error (exit 2), not a violation. The functions that do bind and the bounded
	// stand-ins still run, so that a change which also breaks the property on a real input is
	// reported as a violation with that input; without one the run ends with the check error.
	bindErr := exit != 0
	exit = 0
	if bindErr {
		*noEvidence = true
	}
	timeout, retryTimeout := 10, 30
	if *tier == "thorough" {
		timeout, retryTimeout = 30, 90
	}
	workers := runtime.NumCPU() - 2
	if workers < 2 {
		workers = 2
	}
	res := dischargeAll(all, timeout, seed, *tier == "thorough", workers)
	// retry undecided claimed obligations with a longer timeout on all back ends (in parallel)
	{
		var idx []int
		for i, r := range res {
			if r.O.Expect == "unsat" && !r.OK && (base.Claimed[r.O.Name] || *writeBaseline) && (r.R.Status == "unknown" || r.R.Status == "timeout") {
				idx = append(idx, i)
			}
		}
		if len(idx) > 16 {
			// many undecided obligations at once (a changed function): the long retry of
			// the first few is enough to separate solver jitter from a broken proof
			idx = idx[:16]
		}
		var wg sync.WaitGroup
		sem := make(chan struct{}, workers)
		for _, i := range idx {
			wg.Add(1)
			sem <- struct{}{}
			go func(i int) {
				defer wg.Done()
				defer func() { <-sem }()
				rr := solveObligation(res[i].O, retryTimeout, seed+1, false)
				res[i].R = rr
				res[i].OK = rr.Status == "unsat"
			}(i)
		}
		wg.Wait()
	}

	if *writeBaseline {
		return writeBaselineFile(filepath.Join(*verif, "baseline", "obligations.txt"), base, res, fnNames)
	}

	backends := map[string]int{}
	var solverS float64
	discharged, claimed, vacuityOK, vacuityN := 0, 0, 0, 0
	samples := []map[string]interface{}{}
	unclaimed := []string{}
	var violations []OblResult
	knownHits := []string{}
	seen := map[string]bool{}
	knownFail := map[int]int{}
	sort.SliceStable(res, func(i, j int) bool { return res[i].O.Name < res[j].O.Name })
	for _, r := range res {
		solverS += r.R.Seconds
		seen[r.O.Name] = true
		if r.O.Kind == "vacuity" {
			vacuityN++
			if r.OK {
				vacuityOK++
			} else {
				fmt.Printf("ERROR vacuity: preconditions of %s are unsatisfiable (contract error)\n", r.O.Func)
				exit = 2
			}
			continue
		}
		if r.R.Status == "error" {
			fmt.Printf("ERROR solver error on %s: %s\n", r.O.Name, firstLine(r.R.Output))
			exit = 2
			continue
		}
		isKnown := false
		for ki, k := range known {
			if k.Status == "open" && k.Obligation != "" && (k.Obligation == r.O.Name || k.Obligation == stripOrdinal(r.O.Name)) {
				isKnown = true
				if !r.OK && k.Property != prop && prop != "ALL" {
					// a finding recorded for another property: the clause belongs to that
					// property's check (which reports it); here it is neither counted nor printed
					continue
				}
				if !r.OK {
					knownFail[ki]++
					if k.Sites > 0 && knownFail[ki] > k.Sites {
						// the clause fails at more sites than the finding records:
						// the extra site is a different violation
						isKnown = false
						break
					}
					line := fmt.Sprintf("KNOWN-FINDING: %s", k.Text)
					dup := false
					for _, h := range knownHits {
						if h == line {
							dup = true
						}
					}
					if !dup {
						knownHits = append(knownHits, line)
					}
				}
			}
		}
		if isKnown {
			continue
		}
		if extraKnownSite(known, knownFail, r) {
			violations = append(violations, r)
			continue
		}
		switch {
		case base.Claimed[r.O.Name]:
			claimed++
			if r.OK {
				discharged++
				backends[r.R.Solver]++
				if len(samples) < 12 {
					samples = append(samples, map[string]interface{}{"obligation": r.O.Name, "where": r.O.Pos, "what": r.O.Descr, "backend": r.R.Solver, "seconds": round2(r.R.Seconds), "agree": nonNilStrings(r.R.Agree)})
				}
			} else {
				violations = append(violations, r)
			}
		case base.Open[r.O.Name] != "":
			if !r.OK {
				unclaimed = append(unclaimed, r.O.Name)
			}
		default:
			// an obligation that did not exist when the baseline was written
			if !r.OK {
				violations = append(violations, r)
			} else {
				claimed++
				discharged++
				backends[r.R.Solver]++
			}
		}
	}
	gone := []string{}
	for n := range base.Claimed {
		if !seen[n] {
			fn := n[:strings.Index(n, "#")]
			if _, ok := encoders[fn]; ok {
				gone = append(gone, n)
			}
		}
	}
	sort.Strings(gone)
	for _, k := range knownHits {
		fmt.Println(k)
	}
	for _, n := range notes {
		fmt.Println("NOTE", n)
	}
	if *verbose {
		for _, g := range gone {
			fmt.Println("GONE", g)
		}
		for _, u := range unclaimed {
			fmt.Println("UNCLAIMED", u)
		}
	}
	// violations: write replay files
	os.MkdirAll(filepath.Join(*verif, "replays"), 0o755)
	for _, v := range violations {
		rp := writeReplay(eng, *verif, prop, v, seed)
		suffix := ""
		if !rp.Reproduced {
			suffix = " no-failing-input-found"
		}
		fmt.Printf("VIOLATION property=%s replay=%s obligation=%s status=%s%s\n", prop, rp.Path, v.O.Name, v.R.Status, suffix)
		exit = 1
	}
	// bounded stand-ins (never counted as proved)
	standins, sfail, shits := runStandins(*repo, *verif, prop, *tier, seed, known)
	for _, k := range shits {
		line := fmt.Sprintf("KNOWN-FINDING: %s", k.Text)
		dup := false
		for _, h := range knownHits {
			if h == line {
				dup = true
			}
		}
		if !dup {
			// (a finding already reported through its failed obligation is not repeated)
			fmt.Println(line)
			knownHits = append(knownHits, line)
		}
	}
	for i, f := range sfail {
		path := filepath.Join(*verif, "replays", fmt.Sprintf("%s-standin-%d.json", prop, i))
		data, _ := json.MarshalIndent(map[string]interface{}{"property": prop, "kind": "bounded stand-in", "output": f}, "", " ")
		os.WriteFile(path, data, 0o644)
		fmt.Printf("VIOLATION property=%s replay=%s bounded-standin failed\n", prop, path)
		violations = append(violations, OblResult{})
		exit = 1
	}
	wall := time.Since(t0).Seconds()
	if !*noEvidence {
		tb := []string{}
		for t := range trusted {
			tb = append(tb, t)
		}
		sort.Strings(tb)
		sort.Strings(fnNames)
		us := []string{}
		for u := range units {
			us = append(us, u)
		}
		sort.Strings(us)
		ev := Evidence{PropertyID: prop, Tier: *tier, Seed: seed, Level: "proof", WallS: round2(wall), Violations: len(violations), Assumptions: append(append([]string{}, standingAssumptions...), notes...)}
		ev.Coverage = map[string]interface{}{
			"obligations":              claimed,
			"discharged":               discharged,
			"checker_cmd":              fmt.Sprintf("bin/hclverif check %s --tier %s  (conditions generated from go/ssa of /repo's working tree; back ends: z3 5.1.0, z3 4.8.12, cvc5 1.0.3; first definitive answer wins, thorough: all three must agree)", prop, *tier),
			"trusted_base":             tb,
			"functions_under_contract": fnNames,
			"units":                    us,
			"backends":                 backends,
			"solver_time_s":            round2(solverS),
			"load_and_ssa_s":           round2(loadS),
			"samples":                  samples,
			"unclaimed_undischarged":   unclaimed,
			"gone":                     gone,
			"vacuity_probes":           map[string]int{"run": vacuityN, "passed": vacuityOK},
			"known_findings_hit":       knownHits,
			"bounded_standins":         standins,
			"integers":                 "mathematical (A1)",
		}
		os.MkdirAll(filepath.Join(*verif, "evidence"), 0o755)
		data, _ := json.MarshalIndent(ev, "", " ")
		os.WriteFile(filepath.Join(*verif, "evidence", prop+".json"), data, 0o644)
	}
	fmt.Printf("%s: %d/%d claimed obligations discharged over %d functions (%d unclaimed undischarged, %d known findings), %.1fs\n", prop, discharged, claimed, len(fnNames), len(unclaimed), len(knownHits), wall)
	if bindErr && exit == 0 {
		exit = 2
	}
	return exit
}

// stripOrdinal removes a trailing [n] (return-site / occurrence ordinal) from an obligation name.
// extraKnownSite: a failing obligation under a known-finding name beyond the
// recorded number of sites.
func extraKnownSite(known []KnownFinding, knownFail map[int]int, r OblResult) bool {
	if r.OK {
		return false
	}
	for ki, k := range known {
		if k.Status == "open" && k.Obligation != "" && (k.Obligation == r.O.Name || k.Obligation == stripOrdinal(r.O.Name)) && k.Sites > 0 && knownFail[ki] > k.Sites {
			return true
		}
	}
	return false
}

func nonNilStrings(x []string) []string {
	if x == nil {
		return []string{}
	}
	return x
}

func stripOrdinal(n string) string {
	if strings.HasSuffix(n, "]") {
		if i := strings.LastIndex(n, "["); i > 0 {
			return n[:i]
		}
	}
	return n
}

func round2(f float64) float64 { return float64(int(f*100+0.5)) / 100 }

func firstLine(s string) string {
	s = strings.TrimSpace(s)
	if i := strings.Index(s, "\n"); i >= 0 {
		return s[:i]
	}
	return s
}

func writeBaselineFile(path string, base *Baseline, res []OblResult, fnNames []string) int {
	inFn := map[string]bool{}
	for _, f := range fnNames {
		inFn[f] = true
	}
	fnOf := func(n string) string { return n[:strings.Index(n, "#")] }
	for n := range base.Claimed {
		if inFn[fnOf(n)] {
			delete(base.Claimed, n)
		}
	}
	for n := range base.Open {
		if inFn[fnOf(n)] {
			delete(base.Open, n)
		}
	}
	nc, no := 0, 0
	for _, r := range res {
		if r.O.Kind == "vacuity" {
			continue
		}
		if r.OK && r.R.Seconds < 8 {
			base.Claimed[r.O.Name] = true
			nc++
		} else {
			base.Open[r.O.Name] = r.R.Status
			no++
			fmt.Printf("open  %s (%s %.1fs) %s -- %s\n", r.O.Name, r.R.Status, r.R.Seconds, r.O.Pos, r.O.Descr)
		}
	}
	var lines []string
	for n := range base.Claimed {
		lines = append(lines, "claimed "+n)
	}
	for n, s := range base.Open {
		lines = append(lines, "open "+n+" "+s)
	}
	sort.Strings(lines)
	os.MkdirAll(filepath.Dir(path), 0o755)
	hdr := "# obligations claimed (must discharge on every run) and open (known not to discharge; never counted as proved)\n"
	if err := os.WriteFile(path, []byte(hdr+strings.Join(lines, "\n")+"\n"), 0o644); err != nil {
		fmt.Println("ERROR", err)
		return 2
	}
	fmt.Printf("baseline: %d claimed, %d open written for %d functions\n", nc, no, len(fnNames))
	return 0
}

type ReplayInfo struct {
	Path       string
	Reproduced bool
}

var fileSafe = regexp.MustCompile(`[^A-Za-z0-9_.-]+`)

// writeReplay records a failed obligation and tries to reproduce it on the real code.
func writeReplay(eng *Engine, verif, prop string, v OblResult, seed int) ReplayInfo {
	name := fileSafe.ReplaceAllString(v.O.Name, "_")
	path := filepath.Join(verif, "replays", prop+"-"+name+".json")
	rec := map[string]interface{}{
		"property":      prop,
		"obligation":    v.O.Name,
		"where":         v.O.Pos,
		"what":          v.O.Descr,
		"solver_status": v.R.Status,
		"solver":        v.R.Solver,
		"solver_output": v.R.Output,
		"seed":          seed,
	}
	reproduced := false
	if out, ok, ran := runDynamicReplay(eng, verif, v, seed); ran {
		rec["replay_output"] = out
		rec["reproduced_on_real_code"] = ok
		reproduced = ok
	} else {
		rec["replay_output"] = "no dynamic oracle registered for " + v.O.Func
		rec["reproduced_on_real_code"] = false
	}
	if !reproduced {
		rec["note"] = "no-failing-input-found: the obligation passed on the unchanged tree and no longer discharges; solver output attached"
	}
	data, _ := json.MarshalIndent(rec, "", " ")
	os.WriteFile(path, data, 0o644)
	return ReplayInfo{Path: path, Reproduced: reproduced}
}
