package main

import (
	"fmt"
	"regexp"
	"go/token"
	"go/types"
	"os"
	"path/filepath"
	"sort"
	"strings"
	"sync"

	"golang.org/x/tools/go/packages"
	"golang.org/x/tools/go/ssa"
	"golang.org/x/tools/go/ssa/ssautil"
)

const repoModule = "github.com/hashicorp/hcl/v2"

type Engine struct {
	repoDir   string
	verifDir  string
	prog      *ssa.Program
	ghostReachMemo map[string]int
	implMemo       map[string][]*ssa.Function
	sigMemo        map[string][]*ssa.Function
	fset      *token.FileSet
	pkgs      []*packages.Package
	ssaPkgs   map[string]*ssa.Package
	cs        *ContractSet
	sorts     *Sorts
	subTags   map[string]int
	funcIDs   map[*ssa.Function]int
	fnByName  map[string]*ssa.Function
	pureExt   map[string]bool // package path prefixes / function names assumed pure
	loadTime  float64
	namedTypes []*types.TypeName
	globReach  *reachInfo
	scanned    bool
	closures   []closureInfo
	ifaceSrcList []types.Type
	cleanResult  map[string]bool
	globalFacts  map[string][]string // "pkgpath.Var" -> spec functions assumed to hold of its value
}

func debugObject(d *ssa.DebugRef) types.Object { return d.Object() }

func newEngine(repoDir, verifDir string) *Engine {
	return &Engine{repoDir: repoDir, verifDir: verifDir, ssaPkgs: map[string]*ssa.Package{}, sorts: newSorts(), subTags: map[string]int{}, funcIDs: map[*ssa.Function]int{}, fnByName: map[string]*ssa.Function{}, pureExt: map[string]bool{}}
}

// Load loads the given package patterns of the repository (with the verif
// tag), builds SSA and reads every contract file.
func (e *Engine) Load(patterns []string) error {
	cfg := &packages.Config{Mode: packages.LoadAllSyntax, Dir: e.repoDir, BuildFlags: []string{"-tags=verif"}, Env: append(os.Environ(), "GOFLAGS=-mod=mod", "GOPROXY=off")}
	pkgs, err := packages.Load(cfg, patterns...)
	if err != nil {
		return err
	}
	nerr := 0
	packages.Visit(pkgs, nil, func(p *packages.Package) {
		for _, er := range p.Errors {
			if strings.HasPrefix(p.PkgPath, repoModule) {
				fmt.Fprintf(os.Stderr, "load error: %s: %v\n", p.PkgPath, er)
				nerr++
			}
		}
	})
	if nerr > 0 {
		return fmt.Errorf("%d package load errors", nerr)
	}
	e.pkgs = pkgs
	prog, _ := ssautil.AllPackages(pkgs, ssa.GlobalDebug|ssa.InstantiateGenerics)
	// build bodies only for the repository's own packages; dependencies are
	// only ever used through assumed contracts
	var wg sync.WaitGroup
	for _, p := range prog.AllPackages() {
		if strings.HasPrefix(p.Pkg.Path(), repoModule) {
			wg.Add(1)
			go func(p *ssa.Package) { defer wg.Done(); p.Build() }(p)
		}
	}
	wg.Wait()
	e.prog = prog
	e.fset = prog.Fset
	for _, p := range prog.AllPackages() {
		e.ssaPkgs[p.Pkg.Path()] = p
	}
	for fn := range ssautil.AllFunctions(prog) {
		if fn.Pkg == nil && fn.Parent() == nil {
			continue
		}
		e.fnByName[fnFullName(fn)] = fn
	}
	// contracts
	e.cs = newContractSet()
	for path, p := range e.ssaPkgs {
		if !strings.HasPrefix(path, repoModule) {
			continue
		}
		rel := strings.TrimPrefix(strings.TrimPrefix(path, repoModule), "/")
		f := filepath.Join(e.repoDir, rel, "verif_contracts.go")
		if _, err := os.Stat(f); err == nil {
			if err := e.cs.loadContractFile(f, p.Pkg.Path()); err != nil {
				return err
			}
		}
	}
	// instantiate verif:methods templates for every method without its own contract
	for _, t := range e.cs.Templates {
		prefix := t.PkgPath + "." + strings.TrimSuffix(t.Key, "*")
		var names []string
		for n := range e.fnByName {
			if strings.HasPrefix(t.Key, "*") {
				// "*).Range": every method of that name in the package
				if strings.HasPrefix(n, t.PkgPath+".(") && strings.HasSuffix(n, t.Key[1:]) && !strings.Contains(n, "$") {
					names = append(names, n)
				}
				continue
			}
			if strings.HasPrefix(n, prefix) && !strings.Contains(n[len(prefix):], "$") {
				names = append(names, n)
			}
		}
		sort.Strings(names)
		for _, n := range names {
			if _, has := e.cs.Funcs[n]; has {
				continue
			}
			c := *t
			c.Key = strings.TrimPrefix(n, t.PkgPath+".")
			c.Template = false
			e.cs.Funcs[n] = &c
			e.cs.FuncOrder = append(e.cs.FuncOrder, n)
		}
	}
	// verif:taintscan: every function defined in the listed files gets a contract with no
	// clauses (partial correctness, no safety obligations): only the diagnostic-content
	// (taint) obligations are generated for it.
	for _, ts := range e.cs.TaintFiles {
		want := map[string]bool{}
		for _, f := range ts.Files {
			want[f] = true
		}
		var names []string
		for n, fn := range e.fnByName {
			if !strings.HasPrefix(n, ts.PkgPath+".") || fn.Pkg == nil && fn.Parent() == nil {
				continue
			}
			pkg := fn.Pkg
			for p := fn; pkg == nil && p != nil; p = p.Parent() {
				pkg = p.Pkg
			}
			if pkg == nil || pkg.Pkg.Path() != ts.PkgPath || !fn.Pos().IsValid() || len(fn.Blocks) == 0 {
				continue
			}
			if want[filepath.Base(e.fset.Position(fn.Pos()).Filename)] {
				names = append(names, n)
			}
		}
		sort.Strings(names)
		for _, n := range names {
			if c, has := e.cs.Funcs[n]; has {
				// already under contract for another unit: it also serves the taint property
				for _, p := range ts.Props {
					found := false
					for _, q := range c.Props {
						if q == p {
							found = true
						}
					}
					if !found {
						c.Props = append(append([]string{}, c.Props...), p)
					}
				}
				c.Taint = true
				continue
			}
			c := &FuncContract{Key: strings.TrimPrefix(n, ts.PkgPath+"."), PkgPath: ts.PkgPath, Loops: map[int]*LoopSpec{}, Unit: ts.Unit, Props: ts.Props, Where: "verif:taintscan", NoSafety: true, Taint: true}
			e.cs.Funcs[n] = c
			e.cs.FuncOrder = append(e.cs.FuncOrder, n)
		}
	}
	// verif:filecalls: the callsite clause goes to every function defined in the file
	for _, fc := range e.cs.FileCalls {
		var names []string
		for n, fn := range e.fnByName {
			if !strings.HasPrefix(n, fc.PkgPath+".") || !fn.Pos().IsValid() || len(fn.Blocks) == 0 {
				continue
			}
			pkg := fn.Pkg
			for p := fn; pkg == nil && p != nil; p = p.Parent() {
				pkg = p.Pkg
			}
			if pkg == nil || pkg.Pkg.Path() != fc.PkgPath {
				continue
			}
			if filepath.Base(e.fset.Position(fn.Pos()).Filename) == fc.File {
				names = append(names, n)
			}
		}
		sort.Strings(names)
		for _, n := range names {
			c, has := e.cs.Funcs[n]
			if !has {
				c = &FuncContract{Key: strings.TrimPrefix(n, fc.PkgPath+"."), PkgPath: fc.PkgPath, Loops: map[int]*LoopSpec{}, Unit: fc.Unit, Props: fc.Props, Where: "verif:filecalls", NoSafety: true}
				e.cs.Funcs[n] = c
				e.cs.FuncOrder = append(e.cs.FuncOrder, n)
			} else {
				if c.Trusted || c.External {
					continue
				}
				for _, p := range fc.Props {
					found := false
					for _, q := range c.Props {
						found = found || q == p
					}
					if !found {
						c.Props = append(append([]string{}, c.Props...), p)
					}
				}
			}
			c.CallSites = append(c.CallSites, fc.Spec)
		}
	}
	assumed, _ := filepath.Glob(filepath.Join(e.verifDir, "contracts", "assumed", "*.spec"))
	sort.Strings(assumed)
	for _, f := range assumed {
		if err := e.cs.loadContractFile(f, ""); err != nil {
			return err
		}
		// "pure" declarations for whole packages
		data, _ := os.ReadFile(f)
		for _, line := range strings.Split(string(data), "\n") {
			line = strings.TrimSpace(line)
			if strings.HasPrefix(line, "// verif-cleanresult ") {
				if e.cleanResult == nil {
					e.cleanResult = map[string]bool{}
				}
				for _, n := range strings.Fields(strings.TrimPrefix(line, "// verif-cleanresult ")) {
					e.cleanResult[n] = true
				}
			}
			if strings.HasPrefix(line, "// verif-globalfact ") {
				fs := strings.Fields(strings.TrimPrefix(line, "// verif-globalfact "))
				if len(fs) == 2 {
					if e.globalFacts == nil {
						e.globalFacts = map[string][]string{}
					}
					e.globalFacts[fs[0]] = append(e.globalFacts[fs[0]], fs[1])
				}
			}
			if strings.HasPrefix(line, "// verif-pure ") {
				for _, n := range strings.Fields(strings.TrimPrefix(line, "// verif-pure ")) {
					e.pureExt[n] = true
				}
			}
		}
	}
	return nil
}

// fnFullName: pkgpath.Rel (methods as pkgpath.(*T).M, closures as pkgpath.f$1).
func fnFullName(fn *ssa.Function) string {
	pkg := fn.Pkg
	for p := fn; pkg == nil && p != nil; p = p.Parent() {
		pkg = p.Pkg
	}
	if pkg == nil {
		if fn.Object() != nil && fn.Object().Pkg() != nil {
			return fn.Object().Pkg().Path() + "." + fn.RelString(fn.Object().Pkg())
		}
		return fn.String()
	}
	return pkg.Pkg.Path() + "." + fn.RelString(pkg.Pkg)
}

func (e *Engine) contractFor(fn *ssa.Function) *FuncContract {
	if c, ok := e.cs.Funcs[fnFullName(fn)]; ok {
		return c
	}
	if fn.Origin() != nil {
		if c, ok := e.cs.Funcs[fnFullName(fn.Origin())]; ok {
			return c
		}
	}
	return nil
}

func (e *Engine) isPureExternal(fn *ssa.Function) bool {
	full := fnFullName(fn)
	if e.pureExt[full] {
		return true
	}
	pkg := ""
	if fn.Pkg != nil {
		pkg = fn.Pkg.Pkg.Path()
	} else if fn.Object() != nil && fn.Object().Pkg() != nil {
		pkg = fn.Object().Pkg().Path()
	}
	return pkg != "" && e.pureExt[pkg+".*"]
}

func (e *Engine) funcID(fn *ssa.Function) int {
	if id, ok := e.funcIDs[fn]; ok {
		return id
	}
	id := -(len(e.funcIDs) + 1)
	e.funcIDs[fn] = id
	return id
}

func (e *Engine) pkgByName(name string) *types.Package {
	var found *types.Package
	for path, p := range e.ssaPkgs {
		if p.Pkg.Name() == name && strings.HasPrefix(path, repoModule) {
			found = p.Pkg
		}
	}
	if found != nil {
		return found
	}
	for _, p := range e.ssaPkgs {
		if p.Pkg.Name() == name {
			return p.Pkg
		}
	}
	return nil
}

func (e *Engine) lookupTypeAnywhere(name string) types.Type {
	var paths []string
	for path := range e.ssaPkgs {
		if strings.HasPrefix(path, repoModule) {
			paths = append(paths, path)
		}
	}
	sort.Strings(paths)
	for _, path := range paths {
		if obj, ok := e.ssaPkgs[path].Pkg.Scope().Lookup(name).(*types.TypeName); ok {
			return obj.Type()
		}
	}
	return nil
}

// emitAxioms adds the global axioms of the contract set to a function's script.
func (e *Engine) emitAxioms(fe *FuncEnc, st *State) {
	for _, ax := range e.cs.Axioms {
		env := &Env{fe: fe, st: st, old: st, vars: map[string]EV{}, inOld: true}
		if fe.fn.Pkg != nil {
			env.pkg = fe.fn.Pkg.Pkg
		}
		saved := fe.params
		fe.params = map[string]EV{}
		t := fe.evalBool(env, ax.Expr, "axiom "+ax.Name)
		fe.params = saved
		fe.axioms = append(fe.axioms, axiomLine{name: ax.Name, text: "(assert " + t + ")", syms: sfRe.FindAllString(t, -1)})
	}
}

var sfRe = regexp.MustCompile(`sf_[A-Za-z0-9_]+`)

type axiomLine struct {
	name string
	text string
	syms []string
}

// functionsUnderContract lists the in-repo functions that have a verifiable contract.
func (e *Engine) functionsUnderContract() []*FuncContract {
	var out []*FuncContract
	for _, n := range e.cs.FuncOrder {
		c := e.cs.Funcs[n]
		if c.External || c.Trusted {
			continue
		}
		out = append(out, c)
	}
	return out
}
