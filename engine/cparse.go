package main

// Parser for the contract expression language (Gobra-flavoured Go expressions
// with ==>, <==>, ===, old(), forall/exists).

import (
	"fmt"
	"strconv"
	"strings"
	"unicode"
)

type CExpr interface{ String() string }

type (
	CIdent  struct{ Name string }
	CInt    struct{ V int64 }
	CStr    struct{ V string }
	CBool   struct{ V bool }
	CNil    struct{}
	CUnary  struct{ Op string; X CExpr }
	CBinary struct{ Op string; X, Y CExpr }
	CSel    struct{ X CExpr; Name string }
	CIndex  struct{ X, I CExpr }
	CSlice  struct{ X, Lo, Hi CExpr }
	CCall   struct{ Fn string; Args []CExpr }
	COld    struct{ X CExpr }
	CQuant  struct {
		Forall bool
		Vars   []CVar
		Body   CExpr
		Trig   []CExpr
		AltTrig [][]CExpr // further alternative trigger groups: { a } { b }
	}
	CStar struct{ X CExpr } // location set x[*] (assigns only)
)

type CVar struct{ Name, Type string }

func (e *CIdent) String() string  { return e.Name }
func (e *CInt) String() string    { return fmt.Sprint(e.V) }
func (e *CStr) String() string    { return strconv.Quote(e.V) }
func (e *CBool) String() string   { return fmt.Sprint(e.V) }
func (e *CNil) String() string    { return "nil" }
func (e *CUnary) String() string  { return e.Op + e.X.String() }
func (e *CBinary) String() string { return "(" + e.X.String() + " " + e.Op + " " + e.Y.String() + ")" }
func (e *CSel) String() string    { return e.X.String() + "." + e.Name }
func (e *CIndex) String() string  { return e.X.String() + "[" + e.I.String() + "]" }
func (e *CStar) String() string   { return e.X.String() + "[*]" }
func (e *CSlice) String() string {
	lo, hi := "", ""
	if e.Lo != nil {
		lo = e.Lo.String()
	}
	if e.Hi != nil {
		hi = e.Hi.String()
	}
	return e.X.String() + "[" + lo + ":" + hi + "]"
}
func (e *CCall) String() string {
	var a []string
	for _, x := range e.Args {
		a = append(a, x.String())
	}
	return e.Fn + "(" + strings.Join(a, ", ") + ")"
}
func (e *COld) String() string { return "old(" + e.X.String() + ")" }
func (e *CQuant) String() string {
	q := "exists"
	if e.Forall {
		q = "forall"
	}
	var vs []string
	for _, v := range e.Vars {
		vs = append(vs, v.Name+" "+v.Type)
	}
	return q + " " + strings.Join(vs, ", ") + " :: " + e.Body.String()
}

type ctok struct {
	kind string // id, int, str, op, eof
	text string
	ival int64
}

type cparser struct {
	toks []ctok
	pos  int
	src  string
}

func clex(src string) ([]ctok, error) {
	var toks []ctok
	rs := []rune(src)
	i := 0
	for i < len(rs) {
		r := rs[i]
		switch {
		case unicode.IsSpace(r):
			i++
		case unicode.IsLetter(r) || r == '_':
			j := i
			for j < len(rs) && (unicode.IsLetter(rs[j]) || unicode.IsDigit(rs[j]) || rs[j] == '_' || rs[j] == '$') {
				j++
			}
			toks = append(toks, ctok{kind: "id", text: string(rs[i:j])})
			i = j
		case unicode.IsDigit(r):
			j := i
			for j < len(rs) && (unicode.IsDigit(rs[j]) || unicode.IsLetter(rs[j])) {
				j++
			}
			v, err := strconv.ParseInt(string(rs[i:j]), 0, 64)
			if err != nil {
				return nil, fmt.Errorf("bad number %q", string(rs[i:j]))
			}
			toks = append(toks, ctok{kind: "int", text: string(rs[i:j]), ival: v})
			i = j
		case r == '\'':
			j := i + 1
			for j < len(rs) && rs[j] != '\'' {
				if rs[j] == '\\' {
					j++
				}
				j++
			}
			if j >= len(rs) {
				return nil, fmt.Errorf("unterminated char literal")
			}
			s, err := strconv.Unquote(string(rs[i : j+1]))
			if err != nil {
				return nil, fmt.Errorf("bad char literal %s", string(rs[i:j+1]))
			}
			toks = append(toks, ctok{kind: "int", text: string(rs[i : j+1]), ival: int64([]rune(s)[0])})
			i = j + 1
		case r == '"':
			j := i + 1
			for j < len(rs) && rs[j] != '"' {
				if rs[j] == '\\' {
					j++
				}
				j++
			}
			if j >= len(rs) {
				return nil, fmt.Errorf("unterminated string literal")
			}
			s, err := strconv.Unquote(string(rs[i : j+1]))
			if err != nil {
				return nil, fmt.Errorf("bad string literal")
			}
			toks = append(toks, ctok{kind: "str", text: s})
			i = j + 1
		default:
			ops := []string{"<==>", "==>", "===", "!==", "::", "==", "!=", "<=", ">=", "&&", "||", "[*]"}
			matched := false
			for _, op := range ops {
				if strings.HasPrefix(string(rs[i:]), op) {
					toks = append(toks, ctok{kind: "op", text: op})
					i += len([]rune(op))
					matched = true
					break
				}
			}
			if matched {
				continue
			}
			if strings.ContainsRune("+-*/%<>!()[]{}.,:", r) {
				toks = append(toks, ctok{kind: "op", text: string(r)})
				i++
				continue
			}
			return nil, fmt.Errorf("unexpected character %q", r)
		}
	}
	toks = append(toks, ctok{kind: "eof"})
	return toks, nil
}

func parseCExpr(src string) (e CExpr, err error) {
	toks, err := clex(src)
	if err != nil {
		return nil, fmt.Errorf("%v in %q", err, src)
	}
	p := &cparser{toks: toks, src: src}
	defer func() {
		if r := recover(); r != nil {
			err = fmt.Errorf("%v in %q", r, src)
		}
	}()
	e = p.expr()
	if p.peek().kind != "eof" {
		panic(fmt.Sprintf("unexpected %q", p.peek().text))
	}
	return e, nil
}

// parseCExprList parses a comma-separated list (assigns clauses).
func parseCExprList(src string) (es []CExpr, err error) {
	toks, err := clex(src)
	if err != nil {
		return nil, fmt.Errorf("%v in %q", err, src)
	}
	p := &cparser{toks: toks, src: src}
	defer func() {
		if r := recover(); r != nil {
			err = fmt.Errorf("%v in %q", r, src)
		}
	}()
	if p.peek().kind == "eof" {
		return nil, nil
	}
	for {
		es = append(es, p.expr())
		if p.isOp(",") {
			p.next()
			continue
		}
		break
	}
	if p.peek().kind != "eof" {
		panic(fmt.Sprintf("unexpected %q", p.peek().text))
	}
	return es, nil
}

func (p *cparser) peek() ctok { return p.toks[p.pos] }
func (p *cparser) next() ctok { t := p.toks[p.pos]; p.pos++; return t }
func (p *cparser) isOp(s string) bool {
	t := p.peek()
	return t.kind == "op" && t.text == s
}
func (p *cparser) isID(s string) bool {
	t := p.peek()
	return t.kind == "id" && t.text == s
}
func (p *cparser) expect(s string) {
	if !p.isOp(s) {
		panic(fmt.Sprintf("expected %q, found %q", s, p.peek().text))
	}
	p.next()
}

func (p *cparser) expr() CExpr {
	if p.isID("forall") || p.isID("exists") {
		q := &CQuant{Forall: p.next().text == "forall"}
		for {
			if p.peek().kind != "id" {
				panic("expected bound variable name")
			}
			name := p.next().text
			typ := p.typeName()
			q.Vars = append(q.Vars, CVar{name, typ})
			if p.isOp(",") {
				p.next()
				continue
			}
			break
		}
		p.expect("::")
		if p.isOp("{") { // trigger
			p.next()
			for {
				q.Trig = append(q.Trig, p.expr())
				if p.isOp(",") {
					p.next()
					continue
				}
				break
			}
			p.expect("}")
			for p.isOp("{") { // alternative trigger groups
				p.next()
				var grp []CExpr
				for {
					grp = append(grp, p.expr())
					if p.isOp(",") {
						p.next()
						continue
					}
					break
				}
				p.expect("}")
				q.AltTrig = append(q.AltTrig, grp)
			}
		}
		q.Body = p.expr()
		return q
	}
	return p.iff()
}

func (p *cparser) typeName() string {
	var b strings.Builder
	for p.isOp("*") || p.isOp("[") {
		if p.isOp("*") {
			p.next()
			b.WriteString("*")
		} else {
			p.next()
			p.expect("]")
			b.WriteString("[]")
		}
	}
	if p.peek().kind != "id" {
		panic("expected type name")
	}
	b.WriteString(p.next().text)
	if p.isOp(".") {
		p.next()
		b.WriteString("." + p.next().text)
	}
	return b.String()
}

func (p *cparser) iff() CExpr {
	x := p.impl()
	for p.isOp("<==>") {
		p.next()
		y := p.impl()
		x = &CBinary{"<==>", x, y}
	}
	return x
}

func (p *cparser) impl() CExpr {
	x := p.or()
	if p.isOp("==>") {
		p.next()
		var y CExpr
		if p.isID("forall") || p.isID("exists") {
			y = p.expr()
		} else {
			y = p.impl()
		}
		return &CBinary{"==>", x, y}
	}
	return x
}

func (p *cparser) or() CExpr {
	x := p.and()
	for p.isOp("||") {
		p.next()
		x = &CBinary{"||", x, p.and()}
	}
	return x
}

func (p *cparser) and() CExpr {
	x := p.cmp()
	for p.isOp("&&") {
		p.next()
		if p.isID("forall") || p.isID("exists") {
			x = &CBinary{"&&", x, p.expr()}
			break
		}
		x = &CBinary{"&&", x, p.cmp()}
	}
	return x
}

var cmpOps = map[string]bool{"==": true, "!=": true, "<": true, "<=": true, ">": true, ">=": true, "===": true, "!==": true}

func (p *cparser) cmp() CExpr {
	x := p.add()
	var res CExpr
	for p.peek().kind == "op" && cmpOps[p.peek().text] {
		op := p.next().text
		y := p.add()
		c := &CBinary{op, x, y}
		if res == nil {
			res = c
		} else {
			res = &CBinary{"&&", res, c}
		}
		x = y
	}
	if res == nil {
		return x
	}
	return res
}

func (p *cparser) add() CExpr {
	x := p.mul()
	for p.isOp("+") || p.isOp("-") {
		op := p.next().text
		x = &CBinary{op, x, p.mul()}
	}
	return x
}

func (p *cparser) mul() CExpr {
	x := p.unary()
	for p.isOp("*") || p.isOp("/") || p.isOp("%") {
		op := p.next().text
		x = &CBinary{op, x, p.unary()}
	}
	return x
}

func (p *cparser) unary() CExpr {
	if p.isOp("!") || p.isOp("-") {
		op := p.next().text
		return &CUnary{op, p.unary()}
	}
	return p.postfix()
}

func (p *cparser) postfix() CExpr {
	x := p.primary()
	for {
		switch {
		case p.isOp("."):
			p.next()
			if p.peek().kind != "id" {
				panic("expected field name after '.'")
			}
			x = &CSel{x, p.next().text}
		case p.isOp("[*]"):
			p.next()
			x = &CStar{x}
		case p.isOp("["):
			p.next()
			var lo, hi CExpr
			if p.isOp(":") {
				p.next()
				if !p.isOp("]") {
					hi = p.expr()
				}
				p.expect("]")
				x = &CSlice{x, nil, hi}
				continue
			}
			lo = p.expr()
			if p.isOp(":") {
				p.next()
				if !p.isOp("]") {
					hi = p.expr()
				}
				p.expect("]")
				x = &CSlice{x, lo, hi}
				continue
			}
			p.expect("]")
			x = &CIndex{x, lo}
		case p.isOp("("):
			// call: only on plain (possibly qualified) names
			name := ""
			switch f := x.(type) {
			case *CIdent:
				name = f.Name
			case *CSel:
				if id, ok := f.X.(*CIdent); ok {
					name = id.Name + "." + f.Name
				}
			}
			if name == "" {
				panic("call of non-name")
			}
			p.next()
			var args []CExpr
			if !p.isOp(")") {
				for {
					args = append(args, p.expr())
					if p.isOp(",") {
						p.next()
						continue
					}
					break
				}
			}
			p.expect(")")
			if name == "old" {
				if len(args) != 1 {
					panic("old takes one argument")
				}
				x = &COld{args[0]}
			} else {
				x = &CCall{name, args}
			}
		default:
			return x
		}
	}
}

func (p *cparser) primary() CExpr {
	t := p.next()
	switch t.kind {
	case "int":
		return &CInt{t.ival}
	case "str":
		return &CStr{t.text}
	case "id":
		switch t.text {
		case "true":
			return &CBool{true}
		case "false":
			return &CBool{false}
		case "nil":
			return &CNil{}
		}
		return &CIdent{t.text}
	case "op":
		if t.text == "(" {
			e := p.expr()
			p.expect(")")
			return e
		}
	}
	panic(fmt.Sprintf("unexpected %q", t.text))
}
