package main

// Type-based reachability: which heap variables can a call to code without a
// contract possibly write? Only cells of objects reachable (through fields,
// elements, map entries and the implementers of interfaces) from the call's
// arguments or from package-level variables of the repository. Everything
// else survives the call. Function-typed and empty-interface values reach
// anything.

import (
	"fmt"
	"go/types"
	"os"

	"golang.org/x/tools/go/ssa"
	"sort"
	"strings"
)

type reachInfo struct {
	any    bool
	labels map[string]bool // typeLabel of every type visited (struct owners, cell types, map types)
}

func (e *Engine) allNamedTypes() []*types.TypeName {
	if e.namedTypes != nil {
		return e.namedTypes
	}
	var paths []string
	for p := range e.ssaPkgs {
		paths = append(paths, p)
	}
	sort.Strings(paths)
	for _, p := range paths {
		sc := e.ssaPkgs[p].Pkg.Scope()
		for _, n := range sc.Names() {
			if tn, ok := sc.Lookup(n).(*types.TypeName); ok && !tn.IsAlias() {
				if _, isIface := tn.Type().Underlying().(*types.Interface); !isIface {
					e.namedTypes = append(e.namedTypes, tn)
				}
			}
		}
	}
	return e.namedTypes
}

func (e *Engine) reachOf(roots []types.Type) *reachInfo {
	ri := &reachInfo{labels: map[string]bool{}}
	seen := map[string]bool{}
	inRepo := true
	var visit func(t types.Type)
	visit = func(t types.Type) {
		if ri.any || t == nil {
			return
		}
		k := typeKey(t)
		if seen[k] {
			return
		}
		seen[k] = true
		ri.labels[typeLabel(t)] = true
		switch u := t.Underlying().(type) {
		case *types.Basic:
			if u.Kind() == types.UnsafePointer && inRepo {
				// (an unsafe pointer inside a dependency's own type cannot refer to an object
				// of the repository: A8)
				ri.any = true
				if os.Getenv("VERIF_DEBUG_REACH") != "" {
					fmt.Fprintf(os.Stderr, "REACH any via unsafe.Pointer; visited so far: %v\n", sortedKeys(ri.labels))
				}
			}
		case *types.Pointer:
			visit(u.Elem())
		case *types.Slice:
			visit(u.Elem())
		case *types.Array:
			visit(u.Elem())
		case *types.Chan:
			visit(u.Elem())
		case *types.Map:
			visit(u.Key())
			visit(u.Elem())
		case *types.Struct:
			saved := inRepo
			if n, ok := t.(*types.Named); ok {
				inRepo = n.Obj().Pkg() != nil && strings.HasPrefix(n.Obj().Pkg().Path(), repoModule)
			}
			for i := 0; i < u.NumFields(); i++ {
				visit(u.Field(i).Type())
			}
			inRepo = saved
		case *types.Tuple:
			for i := 0; i < u.Len(); i++ {
				visit(u.At(i).Type())
			}
		case *types.Signature:
			// a func value is a plain function (reaches only package-level variables) or a
			// closure created somewhere in the repository with this very signature: it
			// reaches what that closure captured (closed world over the repository, A8)
			e.scanProgram()
			for _, cl := range e.closures {
				if types.Identical(cl.sig, u) {
					for _, bt := range cl.bindings {
						visit(bt)
					}
				}
			}
		case *types.Interface:
			// the dynamic type of an interface value is a type that some code of the
			// repository converts to an interface (closed world, A8)
			e.scanProgram()
			for _, src := range e.ifaceSrcList {
				if types.Implements(src, u) {
					visit(src)
				}
			}
		}
	}
	for _, r := range roots {
		visit(r)
	}
	return ri
}

// globalReach: what package-level variables of the repository can reach.
func (e *Engine) globalReach() *reachInfo {
	if e.globReach != nil {
		return e.globReach
	}
	var roots []types.Type
	for p, sp := range e.ssaPkgs {
		if !strings.HasPrefix(p, repoModule) {
			continue
		}
		sc := sp.Pkg.Scope()
		for _, n := range sc.Names() {
			if v, ok := sc.Lookup(n).(*types.Var); ok {
				// function-typed globals (e.g. function tables) are ignored: they are
				// assigned once at init and cannot capture per-parse state (A8)
				if _, isFn := v.Type().Underlying().(*types.Signature); isFn {
					continue
				}
				if os.Getenv("VERIF_DEBUG_REACH") != "" {
					if e.reachOf([]types.Type{v.Type()}).any {
						fmt.Fprintf(os.Stderr, "REACH global %s.%s of type %s reaches anything\n", p, v.Name(), v.Type())
					}
				}
				roots = append(roots, v.Type())
			}
		}
	}
	e.globReach = e.reachOf(roots)
	return e.globReach
}

// affected reports whether heap variable hv may be written by code that can
// only reach the given types.
func (ri *reachInfo) affected(hv string) bool {
	if ri.any {
		return true
	}
	switch {
	case strings.HasPrefix(hv, "F:"):
		// F:<owner label>.<field>
		rest := hv[2:]
		if i := strings.LastIndex(rest, "."); i > 0 {
			return ri.labels[rest[:i]]
		}
	case strings.HasPrefix(hv, "M:"):
		return ri.labels[hv[2:]]
	case strings.HasPrefix(hv, "MH:"):
		return ri.labels[hv[3:]]
	case strings.HasPrefix(hv, "MV:"):
		return ri.labels[hv[3:]]
	case strings.HasPrefix(hv, "G:"):
		// G:<Type>.<field> (type by short name, possibly pkg.Type)
		rest := hv[2:]
		if i := strings.LastIndex(rest, "."); i > 0 {
			owner := rest[:i]
			for l := range ri.labels {
				if l == owner || strings.HasSuffix(l, "."+owner) {
					return true
				}
			}
			return false
		}
	}
	return true
}

type closureInfo struct {
	sig      *types.Signature
	bindings []types.Type
}

// scanProgram collects, once, every closure creation and every
// concrete-to-interface conversion in the repository's own code.
func (e *Engine) scanProgram() {
	if e.scanned {
		return
	}
	e.scanned = true
	seen := map[string]bool{}
	for name, fn := range e.fnByName {
		if !strings.HasPrefix(name, repoModule) {
			continue
		}
		for _, b := range fn.Blocks {
			for _, ins := range b.Instrs {
				switch x := ins.(type) {
				case *ssa.MakeClosure:
					ci := closureInfo{sig: x.Fn.(*ssa.Function).Signature}
					for _, bv := range x.Bindings {
						ci.bindings = append(ci.bindings, bv.Type())
					}
					e.closures = append(e.closures, ci)
				case *ssa.MakeInterface:
					k := typeKey(x.X.Type())
					if !seen[k] {
						seen[k] = true
						e.ifaceSrcList = append(e.ifaceSrcList, x.X.Type())
					}
				}
			}
		}
	}
	sort.Slice(e.ifaceSrcList, func(i, j int) bool { return typeKey(e.ifaceSrcList[i]) < typeKey(e.ifaceSrcList[j]) })
}

// ---- which calls can change a global ghost variable -------------------------
//
// A global ghost variable is written only through contracts that name it (a
// `ghost g = ...` assignment or `assigns g`). A callee without a write frame can
// therefore change g only if its code reaches - through static calls, closures,
// and (class-hierarchy style) every repository implementation of an interface
// method it invokes - a function whose contract writes g. Library code outside
// the repository is assumed to call back only into methods without ghost effect
// (comparison, formatting) - assumption A13.

func contractWritesGhost(c *FuncContract, name string) bool {
	for _, gu := range c.Ghost {
		if id, ok := gu.Target.(*CIdent); ok && id.Name == name {
			return true
		}
	}
	for _, a := range c.Assigns {
		if id, ok := a.(*CIdent); ok && id.Name == name {
			return true
		}
	}
	return false
}

// ghostWriters: does any contract at all write the ghost variable?
func (e *Engine) anyGhostWriter(name string) bool {
	for _, c := range e.cs.Funcs {
		if contractWritesGhost(c, name) {
			return true
		}
	}
	return false
}

func (e *Engine) mayWriteGhost(fn *ssa.Function, name string) bool {
	if e.ghostReachMemo == nil {
		e.ghostReachMemo = map[string]int{}
	}
	if fn == nil {
		return true
	}
	key := fnFullName(fn) + "\x00" + name
	if v, ok := e.ghostReachMemo[key]; ok {
		return v == 1
	}
	res := e.mayWriteGhostRec(fn, name, map[*ssa.Function]bool{})
	if res {
		e.ghostReachMemo[key] = 1
	} else {
		e.ghostReachMemo[key] = 0
	}
	return res
}

// mayWriteGhostRec: plain reachability search; visited functions are not explored twice.
func (e *Engine) mayWriteGhostRec(fn *ssa.Function, name string, visited map[*ssa.Function]bool) bool {
	if fn == nil {
		return true
	}
	if visited[fn] {
		return false
	}
	visited[fn] = true
	if e.ghostReachMemo != nil {
		if v, ok := e.ghostReachMemo[fnFullName(fn)+"\x00"+name]; ok {
			return v == 1
		}
	}
	if c := e.contractFor(fn); c != nil {
		if contractWritesGhost(c, name) {
			return true
		}
		if c.Pure || c.HasAssigns {
			return false // the contract's frame does not include the ghost
		}
	}
	if len(fn.Blocks) == 0 {
		return false // no body: code outside the repository (A13)
	}
	for _, b := range fn.Blocks {
		for _, ins := range b.Instrs {
			switch x := ins.(type) {
			case *ssa.MakeClosure:
				if f, ok := x.Fn.(*ssa.Function); ok && e.mayWriteGhostRec(f, name, visited) {
					return true
				}
			case ssa.CallInstruction:
				c := x.Common()
				if c.IsInvoke() {
					if e.invokeMayWriteGhost(c, name, visited) {
						return true
					}
				} else if callee := c.StaticCallee(); callee != nil {
					if e.mayWriteGhostRec(callee, name, visited) {
						return true
					}
				} else if _, isBuiltin := c.Value.(*ssa.Builtin); !isBuiltin {
					if e.funcValueMayWriteGhost(c, name, visited) {
						return true
					}
				}
			}
		}
	}
	return false
}

func (e *Engine) invokeMayWriteGhost(c *ssa.CallCommon, name string, onStack map[*ssa.Function]bool) bool {
	recvT := c.Value.Type()
	if named, ok := recvT.(*types.Named); ok && named.Obj().Pkg() != nil {
		key := named.Obj().Pkg().Path() + ".(" + typeLabelNoPkg(recvT) + ")." + c.Method.Name()
		if ct := e.cs.Funcs[key]; ct != nil {
			return contractWritesGhost(ct, name) || (!ct.Pure && !ct.HasAssigns)
		}
	}
	iface, ok := recvT.Underlying().(*types.Interface)
	if !ok {
		return true
	}
	for _, f := range e.implementersOf(iface, recvT, c.Method) {
		if e.mayWriteGhostRec(f, name, onStack) {
			return true
		}
	}
	return false
}

// implementersOf: the methods of repository types that an invoke of method m on
// the interface can dispatch to (cached).
func (e *Engine) implementersOf(iface *types.Interface, recvT types.Type, m *types.Func) []*ssa.Function {
	if e.implMemo == nil {
		e.implMemo = map[string][]*ssa.Function{}
	}
	key := types.TypeString(recvT, nil) + "." + m.Name()
	if fs, ok := e.implMemo[key]; ok {
		return fs
	}
	var out []*ssa.Function
	for _, tn := range e.allNamedTypes() {
		if tn.Pkg() == nil || !strings.HasPrefix(tn.Pkg().Path(), repoModule) {
			continue
		}
		for _, t := range []types.Type{tn.Type(), types.NewPointer(tn.Type())} {
			if !types.Implements(t, iface) {
				continue
			}
			sel := e.prog.MethodSets.MethodSet(t).Lookup(m.Pkg(), m.Name())
			if sel == nil {
				continue
			}
			if f := e.prog.MethodValue(sel); f != nil {
				out = append(out, f)
			}
			break
		}
	}
	e.implMemo[key] = out
	return out
}

func (e *Engine) funcValueMayWriteGhost(c *ssa.CallCommon, name string, onStack map[*ssa.Function]bool) bool {
	// contract on the function type or on the struct field holding the function
	if named, ok := c.Value.Type().(*types.Named); ok && named.Obj().Pkg() != nil {
		if ct := e.cs.Funcs[named.Obj().Pkg().Path()+".("+named.Obj().Name()+").call"]; ct != nil {
			return contractWritesGhost(ct, name) || (!ct.Pure && !ct.HasAssigns)
		}
	}
	if key := fieldFuncKey(c.Value); key != "" {
		if ct := e.cs.Funcs[key]; ct != nil {
			return contractWritesGhost(ct, name) || (!ct.Pure && !ct.HasAssigns)
		}
	}
	// unknown function value: any function of the repository with this signature
	sig := c.Signature()
	if e.sigMemo == nil {
		e.sigMemo = map[string][]*ssa.Function{}
	}
	skey := types.TypeString(sig.Params(), nil) + types.TypeString(sig.Results(), nil)
	cands, ok := e.sigMemo[skey]
	if !ok {
		var names []string
		for n, fn := range e.fnByName {
			if fn.Signature != nil && len(fn.Blocks) > 0 && types.Identical(fn.Signature.Params(), sig.Params()) && types.Identical(fn.Signature.Results(), sig.Results()) {
				names = append(names, n)
			}
		}
		sort.Strings(names)
		for _, n := range names {
			cands = append(cands, e.fnByName[n])
		}
		e.sigMemo[skey] = cands
	}
	for _, fn := range cands {
		if e.mayWriteGhostRec(fn, name, onStack) {
			return true
		}
	}
	return false
}
