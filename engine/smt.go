package main

// SMT-LIB emission helpers: sorts for Go types, lazily declared datatypes,
// heap variables, and the global prelude (memory-model axioms).

import (
	"fmt"
	"go/types"
	"sort"
	"strings"
)

const (
	sInt   = "Int"
	sBool  = "Bool"
	sStr   = "hv_Str"
	sSlice = "hv_Slice"
	sIface = "hv_Iface"
)

// Script accumulates the declarations, definitions and assertions generated
// while encoding one function. Every obligation remembers the prefix length
// at the moment it was created so that the query contains only what precedes
// it.
type Script struct {
	lines     []string
	declared  map[string]bool
	n         int
	sorts     *Sorts
	strLits   map[string]string // literal -> const name
	strLitOrd []string
	taint     bool
}

func newScript(s *Sorts) *Script {
	return &Script{declared: map[string]bool{}, sorts: s, strLits: map[string]string{}}
}

func (s *Script) add(l string) { s.lines = append(s.lines, l) }

func (s *Script) fresh(prefix string) string {
	s.n++
	return fmt.Sprintf("%s!%d", sanitize(prefix), s.n)
}

// declare introduces a fresh unconstrained constant.
func (s *Script) declare(prefix, sortName string) string {
	n := s.fresh(prefix)
	s.add(fmt.Sprintf("(declare-fun |%s| () %s)", n, sortName))
	return "|" + n + "|"
}

// declareNamed introduces a constant with a fixed name (once).
func (s *Script) declareNamed(name, sortName string) string {
	q := "|" + name + "|"
	if !s.declared[name] {
		s.declared[name] = true
		s.add(fmt.Sprintf("(declare-fun %s () %s)", q, sortName))
	}
	return q
}

// define introduces a named abbreviation for a term.
func (s *Script) define(prefix, sortName, term string) string {
	if isAtom(term) {
		return term
	}
	n := s.fresh(prefix)
	s.add(fmt.Sprintf("(define-fun |%s| () %s %s)", n, sortName, term))
	return "|" + n + "|"
}

func (s *Script) assert(term string) {
	s.add("(assert " + term + ")")
}

// assertFor adds a fact that is only relevant to queries mentioning owner
// (a declared symbol, e.g. a fresh heap version); cone-of-influence slicing
// drops it from all other queries.
func (s *Script) assertFor(owner, term string) {
	s.add("(assert " + term + ") ;owner " + owner)
}

func isAtom(t string) bool {
	return !strings.ContainsAny(t, " (")
}

func sanitize(s string) string {
	var b strings.Builder
	for _, r := range s {
		switch {
		case r >= 'a' && r <= 'z', r >= 'A' && r <= 'Z', r >= '0' && r <= '9', r == '_', r == '.', r == '$', r == '#', r == '@', r == '-', r == '*', r == '/', r == '[', r == ']':
			b.WriteRune(r)
		default:
			b.WriteByte('_')
		}
	}
	return b.String()
}

// strLit returns the constant standing for a Go string literal.
func (s *Script) strLit(v string) string {
	if n, ok := s.strLits[v]; ok {
		return n
	}
	name := fmt.Sprintf("|strlit!%d|", len(s.strLits))
	s.strLits[v] = name
	s.strLitOrd = append(s.strLitOrd, v)
	s.add(fmt.Sprintf("(declare-fun %s () %s)", name, sStr))
	s.assertFor(name, fmt.Sprintf("(= (hv_strlen %s) %d)", name, len(v)))
	if s.taint {
		s.assertFor(name, fmt.Sprintf("(sf_clean %s)", name)) // program text is not value content
	}
	// bytes of short literals (enough for keyword / escape tables)
	if len(v) <= 16 {
		for i := 0; i < len(v); i++ {
			s.assertFor(name, fmt.Sprintf("(= (hv_strat %s %d) %d)", name, i, v[i]))
		}
	}
	// distinct from every earlier literal
	for _, o := range s.strLitOrd[:len(s.strLitOrd)-1] {
		s.assertFor(name, fmt.Sprintf("(not (= %s %s))", name, s.strLits[o]))
	}
	return name
}

// Sorts maps Go types to SMT sorts and owns datatype declarations that are
// shared by all queries of a run (emitted in the prelude).
type Sorts struct {
	structSort map[string]string // types.Type string -> sort name
	structDecl []string          // in dependency order
	structInfo map[string]*structInfo
	typeIDs    map[string]int
	typeIDList []string
	boxFuns    map[string]bool
	extraDecls []string
	extraSeen  map[string]bool
}

type structInfo struct {
	sortName string
	ctor     string
	fields   []structField
	typ      *types.Struct
}

type structField struct {
	name     string
	accessor string
	typ      types.Type
	sort     string
}

func newSorts() *Sorts {
	return &Sorts{structSort: map[string]string{}, structInfo: map[string]*structInfo{}, typeIDs: map[string]int{}, boxFuns: map[string]bool{}, extraSeen: map[string]bool{}}
}

func typeKey(t types.Type) string {
	return types.TypeString(t, func(p *types.Package) string { return p.Path() })
}

func shortTypeName(t types.Type) string {
	s := types.TypeString(t, func(p *types.Package) string { return p.Name() })
	return sanitize(s)
}

// sortOf returns the SMT sort used for values of Go type t.
func (so *Sorts) sortOf(t types.Type) string {
	switch u := t.Underlying().(type) {
	case *types.Basic:
		switch {
		case u.Info()&types.IsBoolean != 0:
			return sBool
		case u.Info()&types.IsString != 0:
			return sStr
		case u.Info()&types.IsInteger != 0:
			return sInt
		default:
			return sInt // floats, complex, unsafe pointers: opaque
		}
	case *types.Pointer, *types.Map, *types.Chan, *types.Signature:
		return sInt
	case *types.Slice:
		return sSlice
	case *types.Interface:
		return sIface
	case *types.Struct:
		return so.structSortOf(t, u)
	case *types.Array:
		return "(Array Int " + so.sortOf(u.Elem()) + ")"
	case *types.Tuple:
		return sInt
	}
	return sInt
}

func (so *Sorts) structSortOf(t types.Type, u *types.Struct) string {
	key := typeKey(t)
	if s, ok := so.structSort[key]; ok {
		return s
	}
	name := fmt.Sprintf("hv_S%d_%s", len(so.structSort), shortTypeName(t))
	if len(name) > 60 {
		name = name[:60]
	}
	so.structSort[key] = name
	info := &structInfo{sortName: name, ctor: "mk_" + name, typ: u}
	var fs []string
	for i := 0; i < u.NumFields(); i++ {
		f := u.Field(i)
		fsrt := so.sortOf(f.Type())
		acc := fmt.Sprintf("%s.%s", name, sanitize(f.Name()))
		info.fields = append(info.fields, structField{name: f.Name(), accessor: acc, typ: f.Type(), sort: fsrt})
		fs = append(fs, fmt.Sprintf("(|%s| %s)", acc, fsrt))
	}
	so.structInfo[name] = info
	if len(fs) == 0 {
		so.structDecl = append(so.structDecl, fmt.Sprintf("(declare-datatypes ((%s 0)) (((|%s|))))", name, info.ctor))
	} else {
		so.structDecl = append(so.structDecl, fmt.Sprintf("(declare-datatypes ((%s 0)) (((|%s| %s))))", name, info.ctor, strings.Join(fs, " ")))
	}
	return name
}

func (so *Sorts) infoOf(t types.Type) *structInfo {
	u, ok := t.Underlying().(*types.Struct)
	if !ok {
		return nil
	}
	return so.structInfo[so.structSortOf(t, u)]
}

// typeID gives a stable small integer for a concrete dynamic type (interface tags).
func (so *Sorts) typeID(t types.Type) int {
	k := typeKey(t)
	if id, ok := so.typeIDs[k]; ok {
		return id
	}
	id := len(so.typeIDs) + 1
	so.typeIDs[k] = id
	so.typeIDList = append(so.typeIDList, k)
	return id
}

// box/unbox: embedding of arbitrary sorts into the Int payload of an interface.
func (so *Sorts) box(t types.Type, term string) string {
	srt := so.sortOf(t)
	if srt == sInt {
		return term
	}
	if srt == sBool {
		return "(ite " + term + " 1 0)"
	}
	fn := so.boxFun(srt)
	return fmt.Sprintf("(%s %s)", fn, term)
}

func (so *Sorts) unbox(t types.Type, term string) string {
	srt := so.sortOf(t)
	if srt == sInt {
		return term
	}
	if srt == sBool {
		return "(= " + term + " 1)"
	}
	fn := so.boxFun(srt)
	return fmt.Sprintf("(un%s %s)", fn, term)
}

func (so *Sorts) boxFun(srt string) string {
	fn := "hv_box_" + sanitize(srt)
	if !so.boxFuns[fn] {
		so.boxFuns[fn] = true
		so.extra(fmt.Sprintf("(declare-fun %s (%s) Int)", fn, srt))
		so.extra(fmt.Sprintf("(declare-fun un%s (Int) %s)", fn, srt))
		so.extra(fmt.Sprintf("(assert (forall ((x %s)) (! (= (un%s (%s x)) x) :pattern ((%s x)))))", srt, fn, fn, fn))
	}
	return fn
}

func (so *Sorts) extra(decl string) {
	if !so.extraSeen[decl] {
		so.extraSeen[decl] = true
		so.extraDecls = append(so.extraDecls, decl)
	}
}

// zero returns the zero value term of a Go type.
func (so *Sorts) zero(t types.Type) string {
	switch u := t.Underlying().(type) {
	case *types.Basic:
		switch {
		case u.Info()&types.IsBoolean != 0:
			return "false"
		case u.Info()&types.IsString != 0:
			return "hv_emptystr"
		default:
			return "0"
		}
	case *types.Slice:
		return "hv_nilslice"
	case *types.Interface:
		return "hv_niliface"
	case *types.Struct:
		info := so.infoOf(t)
		if len(info.fields) == 0 {
			return "|" + info.ctor + "|"
		}
		var parts []string
		for _, f := range info.fields {
			parts = append(parts, so.zero(f.typ))
		}
		return fmt.Sprintf("(|%s| %s)", info.ctor, strings.Join(parts, " "))
	case *types.Array:
		return fmt.Sprintf("((as const (Array Int %s)) %s)", so.sortOf(u.Elem()), so.zero(u.Elem()))
	}
	return "0"
}

// prelude: fixed declarations of the memory model. Quantified axiom groups
// are included only when the query body mentions the functions they are
// about, so that quantifier-free obligations stay quantifier-free (and failing
// ones come back "sat" with a model).
func (so *Sorts) prelude(body string) string {
	var b strings.Builder
	b.WriteString(`(declare-sort hv_Str 0)
(declare-fun hv_strlen (hv_Str) Int)
(declare-fun hv_strat (hv_Str Int) Int)
(declare-fun hv_strcat (hv_Str hv_Str) hv_Str)
(declare-fun hv_emptystr () hv_Str)
(declare-datatypes ((hv_Slice 0)) (((hv_mkslice (hv_org Int) (hv_len Int) (hv_cap Int)))))
(define-fun hv_nilslice () hv_Slice (hv_mkslice 0 0 0))
(declare-datatypes ((hv_Iface 0)) (((hv_mkiface (hv_tag Int) (hv_val Int)))))
(define-fun hv_niliface () hv_Iface (hv_mkiface 0 0))
(declare-fun hv_sub (Int Int) Int)
(declare-fun hv_sub_parent (Int) Int)
(declare-fun hv_sub_tag (Int) Int)
(declare-fun hv_elem (Int Int) Int)
(declare-fun hv_elem_arr (Int) Int)
(declare-fun hv_elem_idx (Int) Int)
(declare-fun hv_kind (Int) Int)
(declare-fun hv_base (Int) Int)
(declare-fun hv_adv (Int Int) Int)
(declare-fun hv_root (Int) Int)
(declare-fun hv_offs (Int) Int)
(declare-fun hv_rtype (Int) Int)
(declare-fun hv_globals () Int)
(assert (and (> hv_globals 0) (> (hv_base hv_globals) 0)))
(assert (= (hv_kind 0) 0))
(assert (= (hv_base 0) 0))
(define-fun hv_div ((x Int) (y Int)) Int (ite (>= x 0) (ite (> y 0) (div x y) (- (div x (- y)))) (ite (> y 0) (- (div (- x) y)) (div (- x) (- y)))))
(define-fun hv_rem ((x Int) (y Int)) Int (- x (* y (hv_div x y))))
(declare-fun hv_bitand (Int Int) Int)
(declare-fun hv_bitor (Int Int) Int)
(declare-fun hv_bitxor (Int Int) Int)
(declare-fun hv_shl (Int Int) Int)
(declare-fun hv_shr (Int Int) Int)
(declare-fun hv_andnot (Int Int) Int)
(declare-fun hv_implements (Int Int) Bool)
`)
	if strings.Contains(body, "hv_strlen") || strings.Contains(body, "hv_emptystr") || strings.Contains(body, "hv_strcat") {
		b.WriteString(`(assert (= (hv_strlen hv_emptystr) 0))
(assert (forall ((s hv_Str)) (! (>= (hv_strlen s) 0) :pattern ((hv_strlen s)))))
(assert (forall ((s hv_Str)) (! (=> (= (hv_strlen s) 0) (= s hv_emptystr)) :pattern ((hv_strlen s)))))
(assert (forall ((a hv_Str) (b hv_Str)) (! (= (hv_strlen (hv_strcat a b)) (+ (hv_strlen a) (hv_strlen b))) :pattern ((hv_strcat a b)))))
(assert (forall ((b hv_Str)) (! (= (hv_strcat hv_emptystr b) b) :pattern ((hv_strcat hv_emptystr b)))))
(assert (forall ((a hv_Str)) (! (= (hv_strcat a hv_emptystr) a) :pattern ((hv_strcat a hv_emptystr)))))
`)
	}
	if strings.Contains(body, "hv_sub ") {
		b.WriteString(`(assert (forall ((x Int) (k Int)) (! (and (= (hv_sub_parent (hv_sub x k)) x) (= (hv_sub_tag (hv_sub x k)) k) (= (hv_kind (hv_sub x k)) 1) (= (hv_base (hv_sub x k)) (hv_base x)) (not (= (hv_sub x k) 0))) :pattern ((hv_sub x k)))))
`)
	}
	if strings.Contains(body, "hv_elem ") || strings.Contains(body, "hv_adv ") {
		b.WriteString(`; slice origins: hv_elem(o,i) is the address of element i counted from origin o;
; hv_adv(o,n) is the origin n elements further (re-slicing); hv_root/hv_offs give
; the underlying array and the origin's offset in it.
(assert (forall ((o Int) (i Int)) (! (and (= (hv_elem_arr (hv_elem o i)) (hv_root o)) (= (hv_elem_idx (hv_elem o i)) (+ (hv_offs o) i)) (= (hv_kind (hv_elem o i)) 2) (= (hv_base (hv_elem o i)) (hv_base o)) (not (= (hv_elem o i) 0))) :pattern ((hv_elem o i)))))
(assert (forall ((o Int) (n Int) (i Int)) (! (= (hv_elem (hv_adv o n) i) (hv_elem o (+ n i))) :pattern ((hv_elem (hv_adv o n) i)))))
(assert (forall ((o Int) (n Int)) (! (and (= (hv_root (hv_adv o n)) (hv_root o)) (= (hv_offs (hv_adv o n)) (+ (hv_offs o) n)) (= (hv_base (hv_adv o n)) (hv_base o)) (=> (= n 0) (= (hv_adv o n) o))) :pattern ((hv_adv o n)))))
(assert (forall ((o Int) (a Int) (b Int)) (! (= (hv_adv (hv_adv o a) b) (hv_adv o (+ a b))) :pattern ((hv_adv (hv_adv o a) b)))))
`)
	}
	for _, d := range so.structDecl {
		b.WriteString(d)
		b.WriteByte('\n')
	}
	for _, d := range so.extraDecls {
		if strings.HasPrefix(d, "(assert") {
			// axioms about helper functions: only when the function is mentioned
			if fn := axiomFunc(d); fn != "" && !strings.Contains(body, fn) {
				continue
			}
		}
		b.WriteString(d)
		b.WriteByte('\n')
	}
	return b.String()
}

// axiomFunc finds the helper function an extra axiom is about (its pattern head).
func axiomFunc(d string) string {
	i := strings.Index(d, ":pattern ((")
	if i < 0 {
		return ""
	}
	rest := d[i+len(":pattern (("):]
	if j := strings.IndexAny(rest, " )"); j > 0 {
		return rest[:j]
	}
	return ""
}

func and(ts ...string) string {
	var out []string
	for _, t := range ts {
		if t == "true" || t == "" {
			continue
		}
		if t == "false" {
			return "false"
		}
		out = append(out, t)
	}
	switch len(out) {
	case 0:
		return "true"
	case 1:
		return out[0]
	}
	return "(and " + strings.Join(out, " ") + ")"
}

func or(ts ...string) string {
	var out []string
	for _, t := range ts {
		if t == "false" || t == "" {
			continue
		}
		if t == "true" {
			return "true"
		}
		out = append(out, t)
	}
	switch len(out) {
	case 0:
		return "false"
	case 1:
		return out[0]
	}
	return "(or " + strings.Join(out, " ") + ")"
}

func not(t string) string {
	switch t {
	case "true":
		return "false"
	case "false":
		return "true"
	}
	return "(not " + t + ")"
}

func implies(a, b string) string {
	if a == "true" {
		return b
	}
	if b == "true" {
		return "true"
	}
	return "(=> " + a + " " + b + ")"
}

func ite(c, a, b string) string {
	if c == "true" {
		return a
	}
	if c == "false" {
		return b
	}
	if a == b {
		return a
	}
	return "(ite " + c + " " + a + " " + b + ")"
}

func eq(a, b string) string {
	if a == b {
		return "true"
	}
	return "(= " + a + " " + b + ")"
}

func num(n int64) string {
	if n < 0 {
		return fmt.Sprintf("(- %d)", -n)
	}
	return fmt.Sprintf("%d", n)
}

func sortedKeys[V any](m map[string]V) []string {
	var ks []string
	for k := range m {
		ks = append(ks, k)
	}
	sort.Strings(ks)
	return ks
}
