package main

import (
	"os"

	"golang.org/x/tools/go/packages"
	"golang.org/x/tools/go/ssa"
	"golang.org/x/tools/go/ssa/ssautil"
)

func main() {
	cfg := &packages.Config{Mode: packages.LoadAllSyntax, Dir: "/repo", BuildFlags: []string{"-tags=verif"}}
	pkgs, _ := packages.Load(cfg, os.Args[1])
	prog, _ := ssautil.AllPackages(pkgs, ssa.GlobalDebug)
	prog.Build()
	for fn := range ssautil.AllFunctions(prog) {
		for _, name := range os.Args[2:] {
			if fn.String() == name || fn.Name() == name {
				fn.WriteTo(os.Stdout)
			}
		}
	}
}
