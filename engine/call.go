package main

import (
	"sort"
	"os"
	"fmt"
	"go/constant"
	"go/token"
	"go/types"
	"strings"

	"golang.org/x/tools/go/ssa"
)

func (fe *FuncEnc) call(v ssa.Value, c *ssa.CallCommon, st *State) {
	fe.callCommon(v, c, st, fe.captureArgs(c), v.(ssa.Instruction).Pos())
}

// setResult binds the call's result value(s).
func (fe *FuncEnc) setResults(v ssa.Value, sig *types.Signature, results []string) {
	if v == nil {
		return
	}
	switch sig.Results().Len() {
	case 0:
	case 1:
		fe.vals[v] = results[0]
	default:
		fe.tups[v] = results
	}
}

func (fe *FuncEnc) freshResults(st *State, sig *types.Signature, hint string) []string {
	var out []string
	rs := sig.Results()
	for i := 0; i < rs.Len(); i++ {
		t := fe.sc.declare(fmt.Sprintf("%s.r%d", hint, i), fe.sorts().sortOf(rs.At(i).Type()))
		fe.assume(st, fe.typeFacts(st, t, rs.At(i).Type()))
		out = append(out, t)
	}
	return out
}

// havocGlobalGhosts: a callee without a write frame may change the global ghost
// variables (through its own ghost assignments or those of anything it calls).
func (fe *FuncEnc) havocGlobalGhosts(st *State) {
	fe.havocGlobalGhostsOf(st, func(string) bool { return true })
}

func (fe *FuncEnc) havocGlobalGhostsOf(st *State, may func(name string) bool) {
	for _, key := range sortedGhostKeys(fe.eng.cs.Ghosts) {
		g := fe.eng.cs.Ghosts[key]
		if g.Type != "$global" || !may(g.Name) {
			continue
		}
		hv := ghostVar(g)
		srt := arrSort(ghostSort(g))
		if _, used := fe.heapSorts[hv]; !used {
			continue
		}
		fe.heapGet(st, hv, srt)
		st.heap[hv] = fe.sc.declare(hv, srt)
		fe.noteWrite(hv)
	}
}

func sortedGhostKeys(m map[string]*GhostField) []string {
	var ks []string
	for k := range m {
		ks = append(ks, k)
	}
	sort.Strings(ks)
	return ks
}

// fieldFuncKey: for a call through a function value loaded from a struct field,
// the contract key "<pkg>.(<Struct>).<field>.call".
func fieldFuncKey(v ssa.Value) string {
	var st types.Type
	var idx int
	switch x := v.(type) {
	case *ssa.UnOp:
		fa, ok := x.X.(*ssa.FieldAddr)
		if !ok || x.Op != token.MUL {
			return ""
		}
		pt, ok := fa.X.Type().Underlying().(*types.Pointer)
		if !ok {
			return ""
		}
		st, idx = pt.Elem(), fa.Field
	case *ssa.Field:
		st, idx = x.X.Type(), x.Field
	default:
		return ""
	}
	named, ok := st.(*types.Named)
	if !ok || named.Obj().Pkg() == nil {
		return ""
	}
	str, ok := named.Underlying().(*types.Struct)
	if !ok || idx >= str.NumFields() {
		return ""
	}
	return named.Obj().Pkg().Path() + ".(" + named.Obj().Name() + ")." + str.Field(idx).Name() + ".call"
}

func (fe *FuncEnc) callCommon(v ssa.Value, c *ssa.CallCommon, st *State, args []string, pos token.Pos) {
	sig := c.Signature()
	hint := "call"
	if v != nil {
		hint = v.Name()
	}
	// builtins
	if b, ok := c.Value.(*ssa.Builtin); ok && !c.IsInvoke() {
		fe.builtin(v, b, c, st, args, pos)
		return
	}
	fe.callSiteAsserts(v, c, st, args, pos)
	var callee *ssa.Function
	var contract *FuncContract
	var paramNames []string
	var calleeName string
	if c.IsInvoke() {
		// interface method: contract declared on the interface method
		recvT := c.Value.Type()
		calleeName = "(" + typeLabelNoPkg(recvT) + ")." + c.Method.Name()
		if named, ok := recvT.(*types.Named); ok && named.Obj().Pkg() != nil {
			contract = fe.eng.cs.Funcs[named.Obj().Pkg().Path()+"."+calleeName]
		}
		fe.nilCheckIface(st, args[0], pos, calleeName)
		paramNames = append(paramNames, "self")
		ps := sig.Params()
		for i := 0; i < ps.Len(); i++ {
			paramNames = append(paramNames, ps.At(i).Name())
		}
	} else {
		callee = c.StaticCallee()
		if callee == nil {
			// closure created in this function?
			if mc, ok := fe.closures[fe.val(c.Value)]; ok {
				callee = mc.Fn.(*ssa.Function)
				var bind []string
				for _, b := range mc.Bindings {
					bind = append(bind, fe.val(b))
				}
				fe.callClosure(v, callee, bind, st, args, pos)
				return
			}
			// a closure held in a local variable (e.g. a recursive func literal)
			if fn2 := fe.resolveClosureCell(c.Value); fn2 != nil {
				if ct := fe.eng.contractFor(fn2); ct != nil {
					var names []string
					for _, p := range fn2.Params {
						names = append(names, p.Name())
					}
					fe.applyContract(v, ct, fn2.Signature, names, args, st, pos, hint, fn2)
					return
				}
			}
			calleeName = "dynamic call"
			// a function stored in a struct field, with a contract on the field
			// ("<pkg>.(<Struct>).<field>.call", first parameter "self")
			if key := fieldFuncKey(c.Value); key != "" {
				if ct := fe.eng.cs.Funcs[key]; ct != nil {
					contract = ct
					calleeName = key
					paramNames = append(paramNames, "self")
					for i := 0; i < sig.Params().Len(); i++ {
						paramNames = append(paramNames, sig.Params().At(i).Name())
					}
					args = append([]string{fe.val(c.Value)}, args...)
					sig = types.NewSignatureType(types.NewVar(token.NoPos, nil, "self", c.Value.Type()), nil, nil, sig.Params(), sig.Results(), sig.Variadic())
				}
			}
			// a value of a named function type with a contract on the type
			// ("<pkg>.(<Type>).call", first parameter "self")
			if named, ok := c.Value.Type().(*types.Named); ok && named.Obj().Pkg() != nil {
				key := named.Obj().Pkg().Path() + ".(" + named.Obj().Name() + ").call"
				if ct := fe.eng.cs.Funcs[key]; ct != nil {
					contract = ct
					calleeName = key
					paramNames = append(paramNames, "self")
					for i := 0; i < sig.Params().Len(); i++ {
						paramNames = append(paramNames, sig.Params().At(i).Name())
					}
					args = append([]string{fe.val(c.Value)}, args...)
					sig = types.NewSignatureType(types.NewVar(token.NoPos, named.Obj().Pkg(), "self", named), nil, nil, sig.Params(), sig.Results(), sig.Variadic())
				}
			}
		} else {
			if mc, ok := c.Value.(*ssa.MakeClosure); ok {
				var bind []string
				for _, b := range mc.Bindings {
					bind = append(bind, fe.val(b))
				}
				fe.callClosure(v, callee, bind, st, args, pos)
				return
			}
			calleeName = callee.String()
			contract = fe.eng.contractFor(callee)
			for _, p := range callee.Params {
				paramNames = append(paramNames, p.Name())
			}
			if len(paramNames) == 0 {
				if r := sig.Recv(); r != nil {
					paramNames = append(paramNames, r.Name())
				}
				for i := 0; i < sig.Params().Len(); i++ {
					paramNames = append(paramNames, sig.Params().At(i).Name())
				}
			}
			if contract != nil && contract.Inline && len(callee.Blocks) > 0 && fe.inlineDepth < 3 {
				fe.inlineCall(v, callee, st, args, pos)
				return
			}
		}
	}
	if fe.sc.taint && callee != nil && contract == nil {
		if fe.taintIntrinsic(v, c, callee, st, sig, hint) {
			return
		}
	}
	if fe.sc.taint && c.IsInvoke() && contract == nil && c.Method.Name() == "Error" && sig.Params().Len() == 0 {
		// error messages produced by conversions and called functions are assumed to
		// contain no value content (A5); the heap is not written
		res := fe.freshResults(st, sig, hint)
		fe.setResults(v, sig, res)
		fe.assume(st, "(sf_clean "+res[0]+")")
		fe.usedAssumed["error.Error() (A5: error messages carry no value content)"] = true
		return
	}
	if contract == nil {
		if callee != nil && fe.eng.isPureExternal(callee) {
			res := fe.freshResults(st, sig, hint)
			fe.setResults(v, sig, res)
			fe.usedAssumed[calleeName+" (assumed pure, no contract)"] = true
			return
		}
		var roots []types.Type
		if c.IsInvoke() {
			roots = append(roots, c.Value.Type())
		} else if _, isFn := c.Value.(*ssa.Function); !isFn && callee == nil {
			roots = append(roots, c.Value.Type()) // dynamic call through a func value
		}
		for _, a := range c.Args {
			roots = append(roots, a.Type())
		}
		fe.havocReachable(st, "call to "+calleeName+" (no contract)", roots)
		if callee != nil {
			fe.havocGlobalGhostsOf(st, func(name string) bool { return fe.eng.mayWriteGhost(callee, name) })
		} else if c.IsInvoke() {
			fe.havocGlobalGhostsOf(st, func(name string) bool { return fe.eng.invokeMayWriteGhost(c, name, map[*ssa.Function]bool{}) })
		} else {
			fe.havocGlobalGhostsOf(st, func(name string) bool { return fe.eng.funcValueMayWriteGhost(c, name, map[*ssa.Function]bool{}) })
		}
		res := fe.freshResults(st, sig, hint)
		fe.setResults(v, sig, res)
		return
	}
	if contract.External || contract.Trusted {
		fe.usedAssumed[contract.FullName()] = true
	}
	fe.applyContract(v, contract, sig, paramNames, args, st, pos, hint, callee)
	if fe.sc.taint && callee != nil && v != nil && fnFullName(callee) == "github.com/zclconf/go-cty/cty.(Value).AsString" {
		// taint rule (also applied when AsString has a contract): the content of a value may
		// be shown only if the value is known to carry no marks
		fe.eng.sorts.extra(fmt.Sprintf("(declare-fun sf_plain (%s) Bool)", fe.sorts().sortOf(c.Args[0].Type())))
		fe.assume(st, implies("(sf_plain "+fe.val(c.Args[0])+")", "(sf_clean "+fe.val(v)+")"))
		fe.usedAssumed["github.com/zclconf/go-cty/cty.(Value).AsString (taint rule: clean only for a value known to be unmarked)"] = true
	}
	if fe.sc.taint && callee != nil && v != nil && fe.eng.cleanResult[fnFullName(callee)] && sig.Results().Len() == 1 {
		// a function under contract whose string result is also declared clean (taint.spec)
		if b, ok := sig.Results().At(0).Type().Underlying().(*types.Basic); ok && b.Kind() == types.String {
			fe.assume(st, "(sf_clean "+fe.val(v)+")")
		}
	}
}

// resolveClosureCell: the called value is loaded from a local variable (or from the
// captured variable of the enclosing function) that is assigned exactly one func literal.
func (fe *FuncEnc) resolveClosureCell(v ssa.Value) *ssa.Function {
	ld, ok := v.(*ssa.UnOp)
	if !ok || ld.Op != token.MUL {
		return nil
	}
	find := func(a *ssa.Alloc) *ssa.Function {
		var found *ssa.Function
		n := 0
		if refs := a.Referrers(); refs != nil {
			for _, r := range *refs {
				if stv, ok := r.(*ssa.Store); ok && stv.Addr == ssa.Value(a) {
					n++
					if mc, ok := stv.Val.(*ssa.MakeClosure); ok {
						found, _ = mc.Fn.(*ssa.Function)
					}
				}
			}
		}
		if n == 1 {
			return found
		}
		return nil
	}
	switch x := ld.X.(type) {
	case *ssa.Alloc:
		return find(x)
	case *ssa.FreeVar:
		parent := fe.fn.Parent()
		if parent == nil {
			return nil
		}
		for _, b := range parent.Blocks {
			for _, ins := range b.Instrs {
				if a, ok := ins.(*ssa.Alloc); ok && a.Comment == x.Name() {
					return find(a)
				}
			}
		}
	}
	return nil
}

func typeLabelNoPkg(t types.Type) string {
	return types.TypeString(t, func(p *types.Package) string { return "" })
}

func (fe *FuncEnc) nilCheckIface(st *State, v string, pos token.Pos, what string) {
	fe.oblige(st, "nil", "", "(not (= (hv_tag "+v+") 0))", pos, "method call on nil interface: "+what)
}

// applyContract: assert requires, havoc assigns, assume ensures.
func (fe *FuncEnc) applyContract(v ssa.Value, contract *FuncContract, sig *types.Signature, paramNames []string, args []string, st *State, pos token.Pos, hint string, callee *ssa.Function) {
	pre := st.clone()
	env := fe.calleeEnv(st, contract, callee, sig, paramNames, args)
	short := contract.Key
	if recv := sig.Recv(); recv != nil && callee != nil && len(args) > 0 {
		if _, isPtr := recv.Type().Underlying().(*types.Pointer); isPtr && !contract.NoNilRecv {
			fe.nilCheck(st, args[0], pos, "receiver of "+short)
		}
	}
	for _, r := range contract.Requires {
		fe.oblige(st, "pre", short+"."+r.Label, fe.evalBool(env, r.Expr, r.Where), pos, "precondition of "+short+": "+r.Src)
	}
	pre.pc = st.pc
	// frame
	if !contract.HasAssigns {
		// no write frame given: the callee may write whatever its arguments can reach
		var roots []types.Type
		if callee != nil {
			for _, p := range callee.Params {
				roots = append(roots, p.Type())
			}
		} else {
			if r := sig.Recv(); r != nil {
				roots = append(roots, r.Type())
			}
			for i := 0; i < sig.Params().Len(); i++ {
				roots = append(roots, sig.Params().At(i).Type())
			}
		}
		fe.havocReachable(st, "call to "+short+" (contract without assigns)", roots)
		if callee != nil && len(callee.Blocks) > 0 {
			fe.havocGlobalGhostsOf(st, func(name string) bool { return fe.eng.mayWriteGhost(callee, name) })
		} else {
			fe.havocGlobalGhosts(st)
		}
	} else if !contract.Pure {
		envPre := fe.calleeEnv(pre, contract, callee, sig, paramNames, args)
		locs := fe.assignLocs(envPre, contract.Assigns, contract.Where)
		byVar := map[string][]assignLoc{}
		for _, l := range locs {
			byVar[l.hv] = append(byVar[l.hv], l)
		}
		for _, hv := range sortedKeys(byVar) {
			srt := fe.heapSorts[hv]
			old := fe.heapGet(st, hv, srt)
			nv := fe.sc.declare(hv, srt)
			fe.noteWrite(hv)
			st.heap[hv] = nv
			whole := false
			var excl []string
			for _, l := range byVar[hv] {
				if l.all {
					whole = true
				}
				if l.cond != "" {
					excl = append(excl, strings.ReplaceAll(l.cond, "%x%", "x"))
				} else {
					excl = append(excl, eq("x", l.addr))
				}
				fe.storeLog = append(fe.storeLog, storeRec{hv: hv, addr: l.addr, pc: st.pc})
			}
			if !whole {
				fe.sc.assertFor(nv, fmt.Sprintf("(forall ((x Int)) (! (=> (and (<= (hv_base x) %s) (not %s)) (= (select %s x) (select %s x))) :pattern ((select %s x))))", pre.allocTop, or(excl...), nv, old, nv))
			}
		}
		fe.bumpAllocTop(st)
		if contract.Fresh {
			// callee may initialise fresh objects in any heap variable: havoc all
			// variables above the old allocation top
		}
	}
	// results and postconditions
	res := fe.freshResults(st, sig, hint)
	fe.setResults(v, sig, res)
	envPost := fe.calleeEnv(st, contract, callee, sig, paramNames, args)
	envPost.old = pre
	fe.bindResults(envPost, sig, contract, res)
	for _, en := range contract.Ensures {
		fe.assume(st, fe.evalBool(envPost, en.Expr, en.Where))
	}
}

func (fe *FuncEnc) calleeEnv(st *State, contract *FuncContract, callee *ssa.Function, sig *types.Signature, paramNames []string, args []string) *Env {
	env := &Env{fe: fe, st: st, old: st, vars: map[string]EV{}}
	if callee != nil && callee.Pkg != nil {
		env.pkg = callee.Pkg.Pkg
	} else if fe.fn.Pkg != nil {
		env.pkg = fe.fn.Pkg.Pkg
	}
	var ptypes []types.Type
	if callee != nil && len(callee.Params) == len(args) {
		for _, p := range callee.Params {
			ptypes = append(ptypes, p.Type())
		}
	} else {
		if r := sig.Recv(); r != nil {
			ptypes = append(ptypes, r.Type())
		}
		for i := 0; i < sig.Params().Len(); i++ {
			ptypes = append(ptypes, sig.Params().At(i).Type())
		}
	}
	for i, a := range args {
		if i < len(paramNames) && i < len(ptypes) && paramNames[i] != "" && paramNames[i] != "_" {
			env.vars[paramNames[i]] = EV{T: a, Typ: ptypes[i]}
		}
		if i < len(ptypes) {
			env.vars[fmt.Sprintf("arg%d", i)] = EV{T: a, Typ: ptypes[i]}
		}
	}
	return env
}

// inlineCall symbolically executes a loop-free callee in place.
func (fe *FuncEnc) inlineCall(v ssa.Value, callee *ssa.Function, st *State, args []string, pos token.Pos) {
	sub := &FuncEnc{eng: fe.eng, fn: callee, c: nil}
	sub.analyseLocals()
	sub.findLoops()
	if len(sub.loops) > 0 {
		fe.fail("cannot inline %s: it has loops", callee.String())
	}
	// share script and bookkeeping with the caller
	sub.sc = fe.sc
	sub.vals = map[ssa.Value]string{}
	sub.tups = map[ssa.Value][]string{}
	sub.heapSorts = fe.heapSorts
	sub.epochMemo = fe.epochMemo
	sub.epochN = fe.epochN
	sub.oblCount = fe.oblCount
	sub.blockOut = map[*ssa.BasicBlock]*State{}
	sub.edgeState = map[[2]int]*State{}
	sub.loopMeasure = map[*ssa.BasicBlock]string{}
	sub.deferFlag = map[*ssa.Defer]string{}
	sub.deferArgs = map[*ssa.Defer][]string{}
	sub.knownNonNil = fe.knownNonNil
	sub.closures = fe.closures
	sub.rangeOf = fe.rangeOf
	sub.usedAssumed = fe.usedAssumed
	sub.blockWrites = map[*ssa.BasicBlock]map[string]bool{}
	sub.recording = fe.recording
	sub.relevant = fe.relevant
	sub.verTop = fe.verTop
	sub.guardedVals = fe.guardedVals
	sub.ghostSorts = fe.ghostSorts
	sub.blockTargets = map[*ssa.BasicBlock]map[string][]ssa.Value{}
	sub.blockReach = map[*ssa.BasicBlock][]*reachInfo{}
	sub.inlineDepth = fe.inlineDepth + 1
	sub.inlineParent = fe
	sub.inlineName = fe.fnName()
	for i, p := range callee.Params {
		sub.vals[p] = args[i]
	}
	sub.params = map[string]EV{}
	var rets []*State
	var retVals [][]string
	cur := st.clone()
	order := sub.order()
	for _, b := range order {
		var in *State
		if b.Index == 0 {
			in = cur
		} else {
			var ins []*State
			for _, p := range b.Preds {
				if es := sub.edgeState[[2]int{p.Index, b.Index}]; es != nil {
					ins = append(ins, es)
				}
			}
			if len(ins) == 0 {
				continue
			}
			in = sub.merge(ins)
			sub.definePhis(b, in)
		}
		sub.curBlock = nil
		sub.block(b, in)
		if r, ok := b.Instrs[len(b.Instrs)-1].(*ssa.Return); ok {
			rets = append(rets, in)
			var rv []string
			for _, x := range r.Results {
				rv = append(rv, sub.val(x))
			}
			retVals = append(retVals, rv)
		}
	}
	fe.epochN = sub.epochN
	fe.obls = append(fe.obls, sub.obls...)
	fe.havocs = append(fe.havocs, sub.havocs...)
	for _, w := range sub.blockWrites {
		for n := range w {
			if !strings.HasPrefix(n, "local:") {
				fe.noteWrite(n)
			}
		}
	}
	if len(rets) == 0 {
		// callee never returns (always panics)
		fe.assume(st, "false")
		res := fe.freshResults(st, callee.Signature, "inl")
		fe.setResults(v, callee.Signature, res)
		return
	}
	merged := sub.merge(rets)
	// value-modelled locals of the callee are dropped; the caller's survive
	callerLocals := st.locals
	*st = *merged
	st.locals = callerLocals
	sig := callee.Signature
	var results []string
	for i := 0; i < sig.Results().Len(); i++ {
		acc := retVals[len(rets)-1][i]
		for k := len(rets) - 2; k >= 0; k-- {
			acc = ite(rets[k].pc, retVals[k][i], acc)
		}
		results = append(results, fe.sc.define("inl."+callee.Name(), fe.sorts().sortOf(sig.Results().At(i).Type()), acc))
	}
	fe.setResults(v, sig, results)
}

// callClosure handles a call of a closure created in this function: the
// closure's own contract (Func$k) is applied with the bindings as extra names.
func (fe *FuncEnc) callClosure(v ssa.Value, callee *ssa.Function, bindings []string, st *State, args []string, pos token.Pos) {
	contract := fe.eng.contractFor(callee)
	sig := callee.Signature
	hint := "closure"
	if v != nil {
		hint = v.Name()
	}
	if contract == nil {
		fe.havocAll(st, "call to closure "+callee.Name()+" (no contract)")
		fe.setResults(v, sig, fe.freshResults(st, sig, hint))
		return
	}
	var names []string
	for _, p := range callee.Params {
		names = append(names, p.Name())
	}
	fe.applyContractClosure(v, contract, callee, bindings, names, args, st, pos, hint)
}

func (fe *FuncEnc) applyContractClosure(v ssa.Value, contract *FuncContract, callee *ssa.Function, bindings []string, names []string, args []string, st *State, pos token.Pos, hint string) {
	// free variables are visible by name as addressed variables
	fe.closureBind = map[string]EV{}
	for i, fv := range callee.FreeVars {
		fe.closureBind[fv.Name()] = EV{T: bindings[i], Typ: fv.Type().Underlying().(*types.Pointer).Elem(), Addr: true}
	}
	defer func() { fe.closureBind = nil }()
	fe.applyContract(v, contract, callee.Signature, names, args, st, pos, hint, callee)
}

func (fe *FuncEnc) builtin(v ssa.Value, b *ssa.Builtin, c *ssa.CallCommon, st *State, args []string, pos token.Pos) {
	switch b.Name() {
	case "len":
		switch t := c.Args[0].Type().Underlying().(type) {
		case *types.Slice:
			fe.setVal(v, "(hv_len "+args[0]+")")
		case *types.Basic:
			fe.setVal(v, "(hv_strlen "+args[0]+")")
		case *types.Map:
			fe.eng.sorts.extra("(declare-fun hv_maplen (Int (Array Int Bool)) Int)")
			r := fe.freshVal(st, v)
			fe.assume(st, "(>= "+r+" 0)")
			mt := t
			_ = mt
			ks := fe.sorts().sortOf(t.Key())
			has := fe.mapHasArr(st, t, args[0])
			// len == 0 iff no key present
			fe.assume(st, fmt.Sprintf("(=> (= %s 0) (forall ((k %s)) (! (not (select %s k)) :pattern ((select %s k)))))", r, ks, has, has))
			fe.assume(st, fmt.Sprintf("(or (= %s 0) (exists ((k %s)) (select %s k)))", r, ks, has))
			fe.assume(st, fmt.Sprintf("(=> (= %s 0) (= %s 0))", args[0], r))
		case *types.Array:
			fe.setVal(v, fmt.Sprint(t.Len()))
		case *types.Pointer:
			if at, ok := t.Elem().Underlying().(*types.Array); ok {
				fe.setVal(v, fmt.Sprint(at.Len()))
			} else {
				fe.freshVal(st, v)
			}
		default:
			r := fe.freshVal(st, v)
			fe.assume(st, "(>= "+r+" 0)")
		}
	case "cap":
		if _, ok := c.Args[0].Type().Underlying().(*types.Slice); ok {
			fe.setVal(v, "(hv_cap "+args[0]+")")
		} else {
			r := fe.freshVal(st, v)
			fe.assume(st, "(>= "+r+" 0)")
		}
	case "append":
		fe.appendOp(v, c, st, args)
	case "copy":
		// copy(dst, src): havoc the element cells of dst's backing array
		if sl, ok := c.Args[0].Type().Underlying().(*types.Slice); ok {
			for _, cell := range fe.eng.leafCells(sl.Elem()) {
				as := arrSort(cell.sort)
				old := fe.heapGet(st, cell.varName, as)
				nv := fe.sc.declare(cell.varName, as)
				fe.noteWrite(cell.varName)
				st.heap[cell.varName] = nv
				fe.sc.assertFor(nv, fmt.Sprintf("(forall ((x Int)) (! (=> (not (= (hv_base x) (hv_base (hv_org %s)))) (= (select %s x) (select %s x))) :pattern ((select %s x))))", args[0], nv, old, nv))
				// the copied window: dst[i] == (old) src[i] for i < min(len(dst), len(src)); the other
				// cells of dst's array are forgotten (a sound over-approximation)
				if _, srcIsSlice := c.Args[1].Type().Underlying().(*types.Slice); srcIsSlice {
					dCell := cell.addr(fmt.Sprintf("(hv_elem (hv_org %s) i)", args[0]))
					sCell := cell.addr(fmt.Sprintf("(hv_elem (hv_org %s) i)", args[1]))
					fe.sc.assertFor(nv, fmt.Sprintf("(forall ((i Int)) (! (=> (and (<= 0 i) (< i (hv_len %s)) (< i (hv_len %s))) (= (select %s %s) (select %s %s))) :pattern ((select %s %s))))", args[0], args[1], nv, dCell, old, sCell, nv, dCell))
				}
			}
		}
		if v != nil {
			r := fe.freshVal(st, v)
			fe.assume(st, fmt.Sprintf("(and (<= 0 %s) (<= %s (hv_len %s)))", r, r, args[0]))
			if _, srcIsSlice := c.Args[1].Type().Underlying().(*types.Slice); srcIsSlice {
				fe.assume(st, fmt.Sprintf("(= %s (ite (< (hv_len %s) (hv_len %s)) (hv_len %s) (hv_len %s)))", r, args[0], args[1], args[0], args[1]))
			}
		}
	case "delete":
		mt := c.Args[0].Type().Underlying().(*types.Map)
		if lock, ok := fe.guardedVals[args[0]]; ok {
			fe.oblige(st, "guard", "mapdelete", "(= "+fe.lockHeld(st, lock)+" 2)", pos, "guarded map is updated with its lock held exclusively")
		}
		fe.curTarget = c.Args[0]
		fe.mapStore(st, mt, args[0], args[1], "", false)
		fe.curTarget = nil
	case "panic":
		if fe.c == nil || !fe.c.MayPanic {
			fe.oblige(st, "panic", "", "false", pos, "explicit panic is unreachable")
		}
		fe.assume(st, "false")
	case "print", "println":
	case "min", "max":
		op := "<="
		if b.Name() == "max" {
			op = ">="
		}
		acc := args[0]
		for _, a := range args[1:] {
			acc = fmt.Sprintf("(ite (%s %s %s) %s %s)", op, acc, a, acc, a)
		}
		fe.setVal(v, acc)
	case "recover":
		fe.freshVal(st, v)
	case "clear":
		fe.havocAll(st, "clear")
	default:
		if v != nil {
			fe.freshVal(st, v)
		}
		fe.havocAll(st, "builtin "+b.Name())
	}
}

// appendOp models append(s, t...). The result has length len(s)+len(t); it
// either reuses s's array (capacity permitting) or lives in a fresh array.
// Element values: result[i] == s[i] for i < len(s), result[len(s)+j] == t[j].
// Cells of other arrays are unchanged; cells of s's array outside the result
// window are forgotten (sound over-approximation of the in-place case).
func (fe *FuncEnc) appendOp(v ssa.Value, c *ssa.CallCommon, st *State, args []string) {
	sl := c.Args[0].Type().Underlying().(*types.Slice)
	s, t := args[0], args[1]
	var tlen string
	tIsString := false
	if _, ok := c.Args[1].Type().Underlying().(*types.Slice); ok {
		tlen = "(hv_len " + t + ")"
	} else {
		tlen = "(hv_strlen " + t + ")"
		tIsString = true
	}
	// a varargs call append(s, x) passes a one-element array
	single := false
	if sx, ok := c.Args[1].(*ssa.Slice); ok {
		if a, ok := sx.X.(*ssa.Alloc); ok {
			if at, ok := a.Type().Underlying().(*types.Pointer).Elem().Underlying().(*types.Array); ok && at.Len() == 1 && sx.Low == nil && sx.High == nil {
				single = true
				tlen = "1"
			}
		}
	}
	ra := fe.sc.declare("append.org", sInt)
	rc := fe.sc.declare("append.cap", sInt)
	newLen := fe.sc.define("append.len", sInt, fmt.Sprintf("(+ (hv_len %s) %s)", s, tlen))
	nt := fe.sc.declare("allocTop", sInt)
	fe.assume(st, fmt.Sprintf("(and (>= %s %s) (or (and (<= %s (hv_cap %s)) (= %s (hv_org %s)) (= %s (hv_cap %s))) (and (> %s %s) (<= %s %s) (= (hv_base %s) %s) (= (hv_kind %s) 0) (= (hv_root %s) %s) (= (hv_offs %s) 0) (>= %s %s))))",
		nt, st.allocTop,
		newLen, s, ra, s, rc, s,
		ra, st.allocTop, ra, nt, ra, ra, ra, ra, ra, ra, rc, newLen))
	st.allocTop = nt
	res := fe.sc.define("append.res", sSlice, fmt.Sprintf("(hv_mkslice %s %s %s)", ra, newLen, rc))
	if v != nil {
		fe.vals[v] = res
	}
	for _, cell := range fe.eng.leafCells(sl.Elem()) {
		as := arrSort(cell.sort)
		if !fe.recording && !fe.relevant[cell.varName] {
			if os.Getenv("VERIF_DEBUG_APPEND") != "" {
				fmt.Fprintln(os.Stderr, "append skipped (irrelevant):", cell.varName, fe.fnName())
			}
			continue
		}
		old := fe.heapGetQuiet(st, cell.varName, as)
		nv := fe.sc.declare(cell.varName, as)
		fe.noteWrite(cell.varName)
		st.heap[cell.varName] = nv
		resCell := func(i string) string { return cell.addr(fmt.Sprintf("(hv_elem %s %s)", ra, i)) }
		sCell := func(i string) string {
			return cell.addr(fmt.Sprintf("(hv_elem (hv_org %s) %s)", s, i))
		}
		fe.sc.assertFor(nv, fmt.Sprintf("(forall ((x Int)) (! (=> (not (= (hv_base x) (hv_base %s))) (= (select %s x) (select %s x))) :pattern ((select %s x))))", ra, nv, old, nv))
		fe.sc.assertFor(nv, fmt.Sprintf("(forall ((i Int)) (! (=> (and (<= 0 i) (< i (hv_len %s))) (= (select %s %s) (select %s %s))) :pattern ((select %s %s))))", s, nv, resCell("i"), old, sCell("i"), nv, resCell("i")))
		switch {
		case single:
			fe.sc.assertFor(nv, fmt.Sprintf("(= (select %s %s) (select %s %s))", nv, resCell("(hv_len "+s+")"), old, cell.addr(fmt.Sprintf("(hv_elem (hv_org %s) 0)", t))))
		case tIsString:
			fe.sc.assertFor(nv, fmt.Sprintf("(forall ((j Int)) (! (=> (and (<= 0 j) (< j %s)) (= (select %s %s) (hv_strat %s j))) :pattern ((select %s %s))))", tlen, nv, resCell("(+ (hv_len "+s+") j)"), t, nv, resCell("(+ (hv_len "+s+") j)")))
		default:
			tCell := func(j string) string {
				return cell.addr(fmt.Sprintf("(hv_elem (hv_org %s) %s)", t, j))
			}
			fe.sc.assertFor(nv, fmt.Sprintf("(forall ((j Int)) (! (=> (and (<= 0 j) (< j %s)) (= (select %s %s) (select %s %s))) :pattern ((select %s %s))))", tlen, nv, resCell("(+ (hv_len "+s+") j)"), old, tCell("j"), nv, resCell("(+ (hv_len "+s+") j)")))
		}
	}
}

// taintIntrinsic models the string-producing functions the diagnostic-content
// rule (unit U18) needs: the result is clean (contains no value content) when
// every formatted argument is. Arguments: strings by their clean() fact;
// integers, booleans, errors (A5) and values of repository types (token types,
// ranges, ...) and cty types are clean; anything else - in particular cty.Value,
// *big.Float, byte slices - is not.
func (fe *FuncEnc) taintIntrinsic(v ssa.Value, c *ssa.CallCommon, callee *ssa.Function, st *State, sig *types.Signature, hint string) bool {
	name := fnFullName(callee)
	var fmtArgs []ssa.Value
	switch name {
	case "fmt.Sprintf", "fmt.Errorf":
		if len(c.Args) < 2 {
			return false
		}
		fmtArgs = append([]ssa.Value{c.Args[0]}, varargElems(c.Args[1])...)
		if fmtArgs == nil {
			return false
		}
	case "fmt.Sprint":
		fmtArgs = varargElems(c.Args[0])
	case "strconv.Itoa", "strconv.FormatInt":
		fmtArgs = nil
	case "strconv.Quote":
		fmtArgs = []ssa.Value{c.Args[0]}
	case "github.com/zclconf/go-cty/cty.(Value).AsString":
		// the content of a value may be shown only if the value is known to carry no marks
		fe.eng.sorts.extra(fmt.Sprintf("(declare-fun sf_plain (%s) Bool)", fe.sorts().sortOf(c.Args[0].Type())))
		res := fe.freshResults(st, sig, hint)
		fe.setResults(v, sig, res)
		fe.assume(st, implies("(sf_plain "+fe.val(c.Args[0])+")", "(sf_clean "+res[0]+")"))
		fe.usedAssumed[name+" (taint rule: clean only for a value known to be unmarked)"] = true
		return true
	default:
		if !fe.eng.cleanResult[name] {
			return false
		}
	}
	// with a constant format string, %T arguments only contribute a type name
	typeOnly := map[int]bool{}
	if name == "fmt.Sprintf" || name == "fmt.Errorf" {
		if cst, ok := c.Args[0].(*ssa.Const); ok && cst.Value != nil && cst.Value.Kind() == constant.String {
			f := constant.StringVal(cst.Value)
			argi := 0
			for i := 0; i < len(f); i++ {
				if f[i] != '%' {
					continue
				}
				i++
				for i < len(f) && strings.ContainsRune("+-# 0123456789.[]", rune(f[i])) {
					i++
				}
				if i >= len(f) {
					break
				}
				if f[i] == '%' {
					continue
				}
				argi++
				if f[i] == 'T' {
					typeOnly[argi] = true
				}
			}
		}
	}
	var conds []string
	for i, a := range fmtArgs {
		if typeOnly[i] {
			continue
		}
		if a == nil {
			conds = append(conds, "false")
			continue
		}
		conds = append(conds, fe.cleanArg(a))
	}
	res := fe.freshResults(st, sig, hint)
	fe.setResults(v, sig, res)
	if len(res) > 0 && fe.sorts().sortOf(sig.Results().At(0).Type()) == sStr {
		fe.assume(st, implies(and(conds...), "(sf_clean "+res[0]+")"))
	}
	fe.usedAssumed[name+" (taint rule: result is clean when its arguments are)"] = true
	return true
}

// cleanArg: condition under which a formatted argument contributes no value content.
func (fe *FuncEnc) cleanArg(a ssa.Value) string {
	for {
		if mi, ok := a.(*ssa.MakeInterface); ok {
			a = mi.X
			continue
		}
		if ci, ok := a.(*ssa.ChangeInterface); ok {
			a = ci.X
			continue
		}
		break
	}
	t := a.Type()
	switch u := t.Underlying().(type) {
	case *types.Basic:
		if u.Info()&types.IsString != 0 {
			return "(sf_clean " + fe.val(a) + ")"
		}
		return "true"
	case *types.Interface:
		if types.Identical(t, types.Universe.Lookup("error").Type()) {
			return "true" // A5
		}
		return "false"
	}
	if n, ok := t.(*types.Named); ok && n.Obj().Pkg() != nil {
		p := n.Obj().Pkg().Path()
		if strings.HasPrefix(p, repoModule) {
			return "true"
		}
		if p == "github.com/zclconf/go-cty/cty" && (n.Obj().Name() == "Type" || n.Obj().Name() == "Path") {
			return "true"
		}
	}
	if pt, ok := t.Underlying().(*types.Pointer); ok {
		if n, ok := pt.Elem().(*types.Named); ok && n.Obj().Pkg() != nil && strings.HasPrefix(n.Obj().Pkg().Path(), repoModule) {
			return "true"
		}
	}
	return "false"
}

// varargElems returns the values stored into the array behind a variadic
// argument slice (nil entries for elements that cannot be found).
func varargElems(sl ssa.Value) []ssa.Value {
	s, ok := sl.(*ssa.Slice)
	if !ok {
		if c, isC := sl.(*ssa.Const); isC && c.Value == nil {
			return []ssa.Value{}
		}
		return []ssa.Value{nil}
	}
	al, ok := s.X.(*ssa.Alloc)
	if !ok {
		return []ssa.Value{nil}
	}
	at, ok := al.Type().Underlying().(*types.Pointer).Elem().Underlying().(*types.Array)
	if !ok {
		return []ssa.Value{nil}
	}
	out := make([]ssa.Value, at.Len())
	if refs := al.Referrers(); refs != nil {
		for _, r := range *refs {
			ia, ok := r.(*ssa.IndexAddr)
			if !ok {
				continue
			}
			ci, ok := ia.Index.(*ssa.Const)
			if !ok {
				continue
			}
			idx := int(ci.Int64())
			if irefs := ia.Referrers(); irefs != nil {
				for _, ir := range *irefs {
					if stv, ok := ir.(*ssa.Store); ok && stv.Addr == ssa.Value(ia) && idx < len(out) {
						out[idx] = stv.Val
					}
				}
			}
		}
	}
	return out
}

// callSiteAsserts proves the "callsite" clauses of the function under proof at a call: the callee's
// name (method name for interface calls, full name for static calls) must contain the clause's
// callee string. arg0.. are the call's arguments (receiver first); locals resolve to the value they
// have at the call.
func (fe *FuncEnc) callSiteAsserts(v ssa.Value, c *ssa.CallCommon, st *State, args []string, pos token.Pos) {
	// (the clauses of a function also apply inside the function literals that are encoded inline
	// with it; a clause naming a local applies where that local is in scope - see below)
	root := fe.root()
	if root.c == nil || len(root.c.CallSites) == 0 {
		return
	}
	name := ""
	var argVals []ssa.Value
	if c.IsInvoke() {
		name = "(" + typeLabelNoPkg(c.Value.Type()) + ")." + c.Method.Name()
		argVals = append([]ssa.Value{c.Value}, c.Args...)
	} else if callee := c.StaticCallee(); callee != nil {
		name = fnFullName(callee)
		argVals = c.Args
	} else {
		return
	}
	var at ssa.Instruction
	if ins, ok := v.(ssa.Instruction); ok {
		at = ins
	}
	for _, cs := range root.c.CallSites {
		// the clause names the function or method exactly (its last name component)
		if name != cs.Callee && !strings.HasSuffix(name, "."+cs.Callee) {
			continue
		}
		env := fe.envAt(st, nil)
		env.callAt = at
		for i, a := range args {
			if i < len(argVals) {
				env.vars[fmt.Sprintf("arg%d", i)] = EV{T: a, Typ: argVals[i].Type()}
			}
		}
		// a clause applies at the call sites where every local it names is in scope (has a
		// definition that dominates the call); elsewhere it says nothing (NOTE)
		if missing := fe.unresolvedAtCall(env, cs.Clause.Expr); missing != "" {
			fe.note("callsite clause %s does not apply at the call of %s at %s: local %q is not in scope there", cs.Clause.Label, cs.Callee, fe.eng.prog.Fset.Position(pos), missing)
			continue
		}
		goal := fe.evalBool(env, cs.Clause.Expr, cs.Clause.Where)
		fe.oblige(st, "callsite", cs.Clause.Label, goal, pos, "call-site assertion at "+cs.Callee+": "+cs.Clause.Src)
	}
}

// unresolvedAtCall returns the first identifier of e that is a local of the function (has debug
// references) but has no definition dominating the call, or "".
func (fe *FuncEnc) unresolvedAtCall(env *Env, e CExpr) string {
	locals := map[string]bool{}
	for _, d := range fe.debugRefs {
		if obj := debugObj(d); obj != nil {
			if _, isVar := obj.(*types.Var); isVar {
				locals[obj.Name()] = true
			}
		}
	}
	missing := ""
	var walk func(x CExpr, bound map[string]bool)
	walk = func(x CExpr, bound map[string]bool) {
		if missing != "" || x == nil {
			return
		}
		switch t := x.(type) {
		case *CIdent:
			if bound[t.Name] {
				return
			}
			if _, ok := env.vars[t.Name]; ok {
				return
			}
			if _, ok := fe.resolveLocalAtCall(env, t.Name); ok {
				return
			}
			if locals[t.Name] {
				missing = t.Name // a local of this function, not in scope at this call
				return
			}
			if _, isParam := fe.params[t.Name]; isParam {
				return
			}
			if fe.closureBind != nil {
				if _, ok := fe.closureBind[t.Name]; ok {
					return
				}
			}
			if _, ok := env.st.ghost[t.Name]; ok {
				return
			}
			if _, ok := fe.eng.cs.Ghosts["$global."+t.Name]; ok {
				return
			}
			if env.pkg != nil {
				if obj := env.pkg.Scope().Lookup(t.Name); obj != nil {
					return
				}
			}
			// not a name of this function at all (a local of another function literal)
			missing = t.Name
		case *CBinary:
			walk(t.X, bound)
			walk(t.Y, bound)
		case *CUnary:
			walk(t.X, bound)
		case *CSel:
			walk(t.X, bound)
		case *CIndex:
			walk(t.X, bound)
			walk(t.I, bound)
		case *CCall:
			for _, a := range t.Args {
				walk(a, bound)
			}
		case *COld:
			walk(t.X, bound)
		case *CQuant:
			nb := map[string]bool{}
			for k := range bound {
				nb[k] = true
			}
			for _, v := range t.Vars {
				nb[v.Name] = true
			}
			walk(t.Body, nb)
		}
	}
	walk(e, map[string]bool{})
	return missing
}
